"""C16  Level-set length and path are exact for the piecewise-linear interpolant."""
import numpy as np

from .. import core, gen_mesh as gm

ID = "C16"
LIMIT = 30.0
RULE = ("triangle meshes (grids flat/height, fans, annuli, Delaunay, closed polyhedra, tori, unions, books, Moebius; flips, "
        "relabelling, scales 0.1..100) x scalar functions (coordinate + noise, random, radial, integer-valued; float64/float32/int64) x "
        "1-4 levels strictly between vertex values incl. levels 1e-7 above a vertex value (merging of near-duplicates) x level_path "
        "with get_tria_idx / n_points in {0,2,3,5,10}; plus two-column functions (ValueError). "
        "distinct = hash of the case; non-trivial = some level whose level set is a single open curve with >= 3 points")
TRUSTED = ["scipy.sparse.csgraph.shortest_path + argsort (modelled as a walk along the path graph; graphs with a node of degree > 2 "
           "are excluded from the path comparison), np.unique(axis=0), np.interp, np.linspace, np.cumsum (modelled)"]
ASSUMPTIONS = ["integer / float32 functions are passed to the model as their float64 values"]
EXHAUSTIVE = {"quick": False, "thorough": False}
SHARD_BYTES = 100_000

COQ_HEADER = """From Coq Require Import List PrimFloat String.
From LaPyV Require Import Base.Scalar Base.Vec3 Base.ListAux Model.TetMesh Model.TriaAdj Model.LevelSet Chk.Cmp Chk.C09 Chk.C16.
Import ListNotations. Open Scope float_scope."""
COQ_CHECK = "check_c16"
COQ_LABELS = ["level_length", "level_path"]

FAMS = ["grid", "gridh", "fan", "annulus", "delaunay", "grid", "gridh", "delaunay", "tetra", "octa", "ico", "torus", "union", "book", "moebius"]


def _levels(rng, f, k, near):
    u = sorted(set(f))
    out = []
    if len(u) < 2:
        return out
    for _ in range(k):
        i = rng.randrange(len(u) - 1)
        lo, hi = u[i], u[i + 1]
        if near and rng.random() < 0.5:
            out.append(lo + 1e-7 * (u[-1] - u[0]) if lo + 1e-7 * (u[-1] - u[0]) < hi else (lo + hi) / 2)
        else:
            a = rng.uniform(0.2, 0.8)
            out.append(lo + a * (hi - lo))
    return [float(x) for x in out if u[0] < x < u[-1] and x not in u]


def generate(rng, tier):
    cases = []
    n = 90 if tier == "quick" else 900
    i = 0
    while len(cases) < n:
        fam = FAMS[i % len(FAMS)]
        i += 1
        v, t = gm.tria_family(fam, rng, small=(tier == "quick" or rng.random() < 0.5))
        if len(t) < 3 or len(v) > 60:
            continue
        v, t = gm.compact(v, t)
        if rng.random() < 0.3:
            t, _ = gm.flip_some(t, rng, 0.4)
        if rng.random() < 0.3:
            v, t, _ = gm.relabel(v, t, rng)
        if rng.random() < 0.3:
            t = gm.rotate_rows(t, rng)
        scale = rng.choice([1.0, 1.0, 1.0, 0.1, 10.0, 100.0])
        P = np.array(v, dtype=float) * scale
        kind = rng.choice(["coord", "coord", "coord", "random", "radial", "int"])
        dt = "float64"
        if kind == "coord":
            d = np.array([rng.uniform(-1, 1) for _ in range(3)])
            d[2] *= 0.2
            f = P @ d + np.array([rng.uniform(-1, 1) for _ in range(len(P))]) * 0.02 * scale
        elif kind == "random":
            f = np.array([rng.uniform(-1, 1) for _ in range(len(P))])
        elif kind == "radial":
            c = P[rng.randrange(len(P))]
            f = np.linalg.norm(P - c, axis=1) + np.array([rng.uniform(0, 1) for _ in range(len(P))]) * 1e-3 * scale
        else:
            f = np.array([float(rng.randint(-3, 3)) for _ in range(len(P))])
            dt = "int64"
        if kind != "int" and rng.random() < 0.15:
            dt = "float32"
            f = f.astype(np.float32).astype(float)
        f = [float(x) for x in f]
        lv = _levels(rng, f, rng.choice([1, 1, 2, 3, 4]), near=(dt == "float64"))
        if not lv:
            continue
        pcs = []
        for l in lv[:3]:
            pcs.append({"level": l, "gt": False, "np": 0})
            pcs.append({"level": l, "gt": True, "np": 0})
            pcs.append({"level": l, "gt": False, "np": rng.choice([2, 3, 5, 10])})
        if rng.random() < 0.2:
            pcs.append({"level": lv[0], "gt": True, "np": 4})
        ld = "float64"
        if dt == "float64" and rng.random() < 0.25:
            # levels handed over as integers (Python int / integer array) or as a float32 array: the function values are shifted a
            # little so that no vertex value is an integer
            cand = [x for x in range(int(np.floor(min(f))) + 1, int(np.ceil(max(f)))) if all(abs(x - y) > 1e-3 for y in f)]
            if cand:
                ld = rng.choice(["int", "int", "float32"])
                lv = [float(x) for x in rng.sample(cand, min(len(cand), rng.choice([1, 2, 3])))]
                pcs = [{"level": lv[0], "gt": False, "np": 0}, {"level": lv[0], "gt": True, "np": 0}]
        cases.append({"family": fam, "v": P.tolist(), "t": t, "f": f, "dtype": dt, "kind": kind, "levels": lv, "paths": pcs,
                      "ncols": 2 if rng.random() < 0.06 else 1, "scale": scale, "ldtype": ld})
    return cases


def run_impl(case):
    from lapy import TriaMesh
    out = {}
    v = np.array(case["v"], dtype=float)
    t = np.array(case["t"], dtype=int)
    m = TriaMesh(v.copy(), t.copy())
    f = np.array(case["f"], dtype=float).astype(case["dtype"])
    if case["ncols"] == 2:
        f = np.stack([f, f], axis=1)
    f0 = f.copy()
    lv = case["levels"]
    ld = case.get("ldtype", "float64")
    if ld == "int":
        lvl_arg = np.array(lv).astype(np.int64) if len(lv) > 1 else int(lv[0])
        conv = lambda x: int(x)
    elif ld == "float32":
        lvl_arg = np.array(lv, dtype=np.float32) if len(lv) > 1 else np.float32(lv[0])
        conv = lambda x: np.float32(x)
    else:
        lvl_arg = np.array(lv) if len(lv) > 1 else lv[0]
        conv = lambda x: x
    try:
        r = m.level_length(f, lvl_arg)
        out["len"] = np.atleast_1d(np.asarray(r, dtype=float)).tolist()
        out["len_is_scalar"] = bool(np.ndim(r) == 0)
    except Exception as e:
        out["len"] = core.errkind(e)
    try:
        out["len_each"] = [float(m.level_length(f, conv(l))) for l in lv]
    except Exception as e:
        out["len_each"] = core.errkind(e)
    out["paths"] = []
    for pc in case["paths"]:
        try:
            r = m.level_path(f, conv(pc["level"]), get_tria_idx=pc["gt"], n_points=(pc["np"] or None))
            d = {"pts": np.asarray(r[0], dtype=float).tolist(), "len": float(r[1])}
            if pc["gt"]:
                d["tri"] = [int(x) for x in r[2]]
            out["paths"].append(d)
        except Exception as e:
            out["paths"].append(core.errkind(e))
    out["untouched"] = bool(np.array_equal(f, f0) and np.array_equal(m.v, v) and np.array_equal(m.t, t))
    return out


def _rt(case):
    """relative tolerance: the interpolation parameter (level - f0) / (f1 - f0) is ill-conditioned when the function values at the
    two ends of a crossed edge are close compared with their size; in float32 level_path computes it in single precision"""
    f = np.array(case["f"], dtype=float)
    f32 = case["dtype"] == "float32"
    eps, base = (6e-8, 2e-5) if f32 else (1.2e-16, 1e-9)
    cond = 1.0
    for l in case["levels"]:
        for r in case["t"]:
            for a, b in _cross_edges(r, f, l):
                cond = max(cond, max(abs(f[a]), abs(f[b]), abs(l)) / abs(f[b] - f[a]))
    return max(base, 32 * eps * cond)


def coq_case(case, out):
    tol = core.cfloat(_rt(case))
    fl = float(np.abs(np.array(case["v"])).max())

    def res(x, f):
        if isinstance(x, str):
            return "(Err %s)" % {"ValueError": "ValueError", "IndexError": "IndexError"}.get(x, "OtherError")
        return f"(Ok {f(x)})"
    pcs = []
    for pc, o in zip(case["paths"], out["paths"]):
        pcs.append("(%s, %s, %d%%nat, %s)" % (core.cfloat(pc["level"]), core.cbool(pc["gt"]), pc["np"],
                   res(o, lambda d: "(%s, %s, %s)" % (core.cv3list(d["pts"]), core.cfloat(d["len"]), core.cnlist(d.get("tri", []))))))
    return "(%s, %s, %s, %s, %d%%nat, %s, %s, %s, [%s])" % (
        tol, core.cfloat(fl), core.cv3list(case["v"]), core.ctuples(case["t"]), case["ncols"], core.cflist(case["f"]),
        core.cflist(case["levels"]), res(out["len"], core.cflist), "; ".join(pcs))


# ------------------------------------------------------------------ brute-force reference
def _cross_edges(t_row, f, lvl):
    r = t_row
    return [(a, b) for a, b in ((r[0], r[1]), (r[1], r[2]), (r[2], r[0])) if (f[a] > lvl) != (f[b] > lvl)]


def _pt(P, f, lvl, a, b):
    x = (lvl - f[a]) / (f[b] - f[a])
    return (1 - x) * P[a] + x * P[b]


def brute(P, t, f, lvl):
    """segments of the level set: list of (tria index, key1, key2, p1, p2)"""
    segs = []
    for k, r in enumerate(t):
        ce = _cross_edges(r, f, lvl)
        if len(ce) == 2:
            segs.append((k, tuple(sorted(ce[0])), tuple(sorted(ce[1])), _pt(P, f, lvl, *ce[0]), _pt(P, f, lvl, *ce[1])))
    return segs


def single_open_curve(segs):
    nb = {}
    for _, k1, k2, _, _ in segs:
        nb.setdefault(k1, []).append(k2)
        nb.setdefault(k2, []).append(k1)
    if not nb:
        return False
    deg = [len(x) for x in nb.values()]
    if max(deg) > 2 or deg.count(1) != 2:
        return False
    start = next(iter(nb))
    seen, todo = {start}, [start]
    while todo:
        x = todo.pop()
        for y in nb[x]:
            if y not in seen:
                seen.add(y)
                todo.append(y)
    return len(seen) == len(nb)


def _resample_ref(P, n):
    seg = np.linalg.norm(np.diff(P, axis=0), axis=1)
    d = np.concatenate([[0.0], np.cumsum(seg)])
    out = []
    for i in range(n):
        s = d[-1] * i / (n - 1) if n > 1 else 0.0
        j = min(max(int(np.searchsorted(d, s, side="right")) - 1, 0), len(P) - 2)
        w = 0.0 if d[j + 1] == d[j] else (s - d[j]) / (d[j + 1] - d[j])
        out.append(P[j] + min(max(w, 0.0), 1.0) * (P[j + 1] - P[j]))
    return np.array(out)


def oracle(case, out):
    V = []
    def bad(clause, detail, wc=None):
        V.append({"clause": clause, "detail": detail, "witness_class": wc})
    P = np.array(case["v"], dtype=float)
    t = case["t"]
    f = np.array(case["f"], dtype=float)
    f32 = case["dtype"] == "float32"
    sc = float(np.abs(P).max())
    rt = _rt(case)
    if not out["untouched"]:
        bad("inputs_not_modified", "a caller-owned array changed")
    if case["ncols"] != 1:
        if out["len"] != "ValueError":
            bad("non_scalar_input_raises_ValueError", f"level_length: {str(out['len'])[:60]}")
        for o in out["paths"]:
            if o != "ValueError":
                bad("non_scalar_input_raises_ValueError", f"level_path: {str(o)[:60]}")
        return V
    if isinstance(out["len"], str):
        bad("level_length_no_exception", out["len"])
        return V
    lv = case["levels"]
    ref = [sum(float(np.linalg.norm(s[3] - s[4])) for s in brute(P, t, f, l)) for l in lv]
    if len(out["len"]) != len(lv):
        bad("level_length_one_value_per_level", f"{len(out['len'])} for {len(lv)} levels")
    elif np.abs(np.array(out["len"]) - np.array(ref)).max() > rt * (sc + max(ref)):
        bad("level_length_is_length_of_pl_level_set", f"{out['len']} vs {ref}")
    if (len(lv) == 1) != out["len_is_scalar"]:
        bad("level_length_scalar_for_one_level_array_for_several", f"scalar={out['len_is_scalar']} for {len(lv)} levels")
    if isinstance(out["len_each"], str) or np.abs(np.array(out["len_each"]) - np.array(ref)).max() > rt * (sc + max(ref)):
        bad("level_length_array_equals_single_calls", f"{out['len_each']} vs {ref}")
    base = {}
    for pc, o in zip(case["paths"], out["paths"]):
        l = pc["level"]
        segs = brute(P, t, f, l)
        single = single_open_curve(segs)
        if pc["gt"] and pc["np"]:
            if o != "ValueError":
                bad("n_points_with_tria_idx_raises_ValueError", str(o)[:60])
            continue
        if not single:
            continue                      # nothing is claimed for other level sets
        if isinstance(o, str):
            bad("level_path_no_exception_on_single_open_curve", o)
            continue
        total = sum(float(np.linalg.norm(s[3] - s[4])) for s in segs)
        if abs(o["len"] - total) > rt * (sc + total):
            bad("level_path_length_equals_level_length", f"{o['len']} vs {total}")
        pts = np.array(o["pts"], dtype=float).reshape(-1, 3)
        cps = {}
        for k, k1, k2, p1, p2 in segs:
            cps[k1] = p1
            cps[k2] = p2
        nodes = np.array(list(cps.values()))
        merge_tol = 1.001e-3 * len(nodes)
        if pc["np"] == 0:
            # every point lies on a mesh edge at the level value
            dmin = [float(np.linalg.norm(nodes - q, axis=1).min()) for q in pts]
            if max(dmin) > 100 * rt * sc:
                bad("path_points_lie_on_mesh_edges_at_level", f"max distance to a crossing point {max(dmin)}")
            # all crossing points are represented (up to merging)
            far = [float(np.linalg.norm(pts - q, axis=1).min()) for q in nodes]
            if max(far) > merge_tol + 4 * rt * sc:      # rt * sc: how far rounding of the interpolation parameter moves a point
                bad("path_visits_every_crossing_point", f"a crossing point is {max(far)} away from the path")
            if len(pts) > len(nodes):
                bad("path_has_at_most_one_point_per_crossed_edge", f"{len(pts)} points, {len(nodes)} crossed edges")
            # consecutive points lie in a common triangle
            for i in range(len(pts) - 1):
                ok = False
                for k, k1, k2, p1, p2 in segs:
                    da = min(np.linalg.norm(pts[i] - p1) + np.linalg.norm(pts[i + 1] - p2),
                             np.linalg.norm(pts[i] - p2) + np.linalg.norm(pts[i + 1] - p1))
                    if da <= merge_tol + 100 * rt * sc:
                        ok = True
                        break
                if not ok:
                    bad("consecutive_path_points_share_a_triangle", f"points {i},{i+1}")
                    break
            if pc["gt"]:
                tri = o.get("tri", [])
                if len(tri) != len(pts) - 1:
                    bad("one_triangle_index_per_segment", f"{len(tri)} for {len(pts)} points")
                else:
                    byk = {s[0]: s for s in segs}
                    for i, k in enumerate(tri):
                        s = byk.get(k)
                        if s is None:
                            bad("reported_triangle_is_crossed_by_level", f"segment {i}: triangle {k}")
                            break
                        da = min(np.linalg.norm(pts[i] - s[3]) + np.linalg.norm(pts[i + 1] - s[4]),
                                 np.linalg.norm(pts[i] - s[4]) + np.linalg.norm(pts[i + 1] - s[3]))
                        if da > merge_tol + 100 * rt * sc:
                            bad("reported_triangle_contains_the_segment", f"segment {i}: triangle {k}")
                            break
            else:
                base[l] = pts
        else:
            if len(pts) != pc["np"]:
                bad("resampled_to_n_points", f"{len(pts)} vs {pc['np']}")
            elif l in base and len(base[l]) >= 2:
                b = base[l]
                if np.abs(pts[0] - b[0]).max() > 100 * rt * sc or np.abs(pts[-1] - b[-1]).max() > 100 * rt * sc:
                    bad("resampling_keeps_end_points", f"{pts[0].tolist()} {pts[-1].tolist()} vs {b[0].tolist()} {b[-1].tolist()}")
                r = b
                for _ in range(3):
                    r = _resample_ref(r, pc["np"])
                if np.abs(r - pts).max() > 1e4 * rt * sc:
                    bad("resampled_points_equally_spaced_in_arc_length", f"max deviation {np.abs(r - pts).max()}")
    return V


def nontrivial(case, out):
    if case["ncols"] != 1:
        return False
    P = np.array(case["v"], dtype=float)
    f = np.array(case["f"], dtype=float)
    for l in case["levels"]:
        s = brute(P, case["t"], f, l)
        if len(s) >= 2 and single_open_curve(s):
            return True
    return False
