"""C10  orient_ makes every orientable manifold triangle mesh consistently oriented."""
import numpy as np

from .. import core, gen_mesh as gm

ID = "C10"
LIMIT = 8.0
RULE = ("edge-manifold orientable base meshes (tetrahedron, octahedron, cube, icosahedron, torus, grids, fans, annuli, open cube, "
        "ellipsoids; unions of 2-3 components of different size, also with a two-triangle pillow as first / middle / last component) in which every triangle has an interior edge, x flip patterns "
        "(all 2^T for T <= 8 (quick: T <= 6) else sampled, always including none / all / single), x cyclic rotations x relabelling x "
        "unused vertices; two strips of 1150 triangles (oracle only) x length unit (30%: coordinates scaled by 1e-6, 3e-7, 1e-4 or 1e3); plus non-manifold books and three-cone complexes for the ValueError clause. distinct = hash of (v,t); "
        "non-trivial = at least one triangle flipped relative to a consistent orientation, or a rejected mesh")
TRUSTED = ["np.unique(axis=0,return_index,return_counts), np.lexsort stability, scipy sparse product / addition keeping stored entries (modelled)"]
ASSUMPTIONS = ["a call that does not return within 8 s corresponds to OutOfFuel",
               "closed meshes whose volume is below 1e-9 of the sum of the absolute signed-volume terms are not generated (sign decision would be rounding dependent)"]
EXHAUSTIVE = {"quick": False, "thorough": False}
SHARD_BYTES = 150_000

COQ_HEADER = """From Coq Require Import List ZArith PrimFloat String.
From LaPyV Require Import Base.Scalar Base.Vec3 Base.ListAux Model.TetMesh Model.TriaAdj Model.TriaOrient Chk.Cmp Chk.C09 Chk.C10.
Import ListNotations. Open Scope float_scope."""
COQ_CHECK = "check_c10"
COQ_LABELS = ["first_call", "second_call"]


def open_cube():
    v, t = gm.cube_surface()
    return v, t[2:]


def three_cones():
    v = [[0.0, 0, 0], [1.0, 0, 0], [0.0, 1, 0], [0.3, 0.3, 1.0], [0.3, 0.3, -1.0], [0.3, 0.3, 2.0]]
    v = [[float(c) for c in p] for p in v]
    t = []
    for apex in (3, 4, 5):
        for a, b in ((0, 1), (1, 2), (2, 0)):
            t.append([a, b, apex])
    return v, t


def bases(rng, tier):
    out = [("tetra", gm.tetra_surface()), ("octa", gm.octahedron()), ("cube", gm.cube_surface()), ("open_cube", open_cube()),
           ("fan", gm.fan(5)), ("fan_closed", gm.fan(5, closed=True)), ("annulus", gm.annulus(4)), ("grid", gm.grid(2, 2)),
           ("gridh", gm.grid(3, 2, rng, "smooth")), ("torus", gm.torus(3, 3)), ("ico", gm.icosahedron())]
    t1, t2 = gm.tetra_surface(), gm.octahedron()
    out.append(("union2", gm.union([t1, ((np.array(t2[0]) * 0.5).tolist(), t2[1])])))
    out.append(("union3", gm.union([gm.tetra_surface(), ((np.array(gm.cube_surface()[0]) * 0.6).tolist(), gm.cube_surface()[1]), gm.grid(2, 1)])))
    out.append(("union_open", gm.union([gm.fan(4), gm.grid(2, 2)])))
    # "pillows": two triangles on the same three vertices (a sphere made of two faces; every edge lies in exactly two triangles,
    # the two triangles share all three edges), as the last, the first or a middle component
    pil = ([[5.0, 0.0, 0.0], [6.0, 0.2, 0.0], [5.1, 1.0, 0.3]], [[0, 1, 2], [0, 2, 1]])
    out.append(("union_pillow_last", gm.union([gm.tetra_surface(), pil])))
    out.append(("union_pillow_first", gm.union([pil, gm.tetra_surface()])))
    out.append(("union_pillow_open", gm.union([gm.grid(2, 1), pil, gm.fan(4)])))
    if tier == "thorough":
        out.append(("ellipsoid", gm.ellipsoid(1)))
        out.append(("torus45", gm.torus(4, 5)))
    return out


def generate(rng, tier):
    cases = []
    full_limit = 6 if tier == "quick" else 9
    nsample = 12 if tier == "quick" else 150
    for name, (v, t) in bases(rng, tier):
        T = len(t)
        pats = set()
        if T <= full_limit:
            pats = set(range(1 << T))
        else:
            pats = {0, (1 << T) - 1}
            for k in range(min(T, 6)):
                pats.add(1 << rng.randrange(T))
            while len(pats) < nsample:
                pats.add(rng.getrandbits(T))
        for p in sorted(pats):
            tt = [[r[1], r[0], r[2]] if (p >> k) & 1 else list(r) for k, r in enumerate(t)]
            vv = [list(x) for x in v]
            if rng.random() < 0.5:
                tt = gm.rotate_rows(tt, rng)
            if rng.random() < 0.25:
                for _ in range(rng.randint(1, 4)):
                    vv, tt = gm.add_unused(vv, tt, rng)
            if rng.random() < 0.4:
                vv, tt, _ = gm.relabel(vv, tt, rng)
            if rng.random() < 0.15:
                tt, _ = gm.reorder(tt, rng)
            sc = 1.0
            if rng.random() < 0.3:
                # another length unit (micrometres ... kilometres): orientation and the outward decision do not depend on it
                sc = rng.choice([1e-6, 3e-7, 1e-4, 1e3])
                vv = [[c * sc for c in x] for x in vv]
            cases.append({"family": name, "v": vv, "t": tt, "flip_pattern": p, "scale": sc})
    # a long strip (triangle-neighbour graph of diameter > 1000: the flood needs more than a thousand sweeps); too long for the
    # quadratic in-Coq evaluation, so these two cases are judged by the brute-force oracle only
    N = 1150
    vs = [[0.5 * k, float(k % 2), 0.0] for k in range(N + 2)]
    ts0 = [[k, k + 1, k + 2] if k % 2 == 0 else [k + 1, k, k + 2] for k in range(N)]
    for pat in ("far_end", "random"):
        tt = [list(r) for r in ts0]
        flips = [N - 1] if pat == "far_end" else [k for k in range(N) if rng.random() < 0.5]
        for k in flips:
            tt[k] = [tt[k][1], tt[k][0], tt[k][2]]
        cases.append({"family": "long_strip", "v": vs, "t": tt, "flip_pattern": -2, "scale": 1.0})
    for k in (3, 4, 5):
        v, t = gm.book(k)
        t2, _ = gm.flip_some(t, rng, 0.5)
        cases.append({"family": "book_nonmanifold", "v": v, "t": t2, "flip_pattern": -1})
    v, t = three_cones()
    for _ in range(3):
        t2, _ = gm.flip_some(t, rng, 0.4)
        cases.append({"family": "three_cones_nonmanifold", "v": v, "t": t2, "flip_pattern": -1})
    return cases


def run_impl(case):
    from lapy import TriaMesh
    v = np.array(case["v"], dtype=float)
    t = np.array(case["t"], dtype=int)
    out = {}
    m = TriaMesh(v.copy(), t.copy())
    for tag in ("r1", "r2"):
        try:
            r = m.orient_()
            out[tag] = {"t": m.t.tolist(), "flipped": int(r), "v_same": bool(np.array_equal(m.v, v))}
        except core.CaseTimeout:
            out[tag] = "OutOfFuel"
            break
        except Exception as e:
            out[tag] = core.errkind(e)
            break
    return out


def _res(x):
    if isinstance(x, str):
        k = {"ValueError": "ValueError", "IndexError": "IndexError", "OutOfFuel": "OutOfFuel"}.get(x, "OtherError")
        return f"(Err {k})"
    return f"(Ok ({core.ctuples(x['t'])}, {x['flipped']}%nat))"


def coq_case(case, out):
    if case["family"] == "long_strip":
        return None
    if out.get("_timeout"):
        out = {"r1": "OutOfFuel"}
    r2 = out.get("r2", "OtherError")
    return f"({core.cv3list(case['v'])}, {core.ctuples(case['t'])}, {_res(out['r1'])}, {_res(r2)})"


def _oriented(t):
    seen = set()
    for r in t:
        for e in ((r[0], r[1]), (r[1], r[2]), (r[2], r[0])):
            if e in seen:
                return False
            seen.add(e)
    return True


def _und(t):
    d = {}
    for r in t:
        for e in ((r[0], r[1]), (r[1], r[2]), (r[2], r[0])):
            d[frozenset(e)] = d.get(frozenset(e), 0) + 1
    return d


def _parity_changed(a, b):
    a, b = list(a), list(b)
    rots = [a, a[1:] + a[:1], a[2:] + a[:2]]
    return b not in rots


def oracle(case, out):
    V = []
    def bad(clause, detail, wc=None):
        V.append({"clause": clause, "detail": detail, "witness_class": wc})
    t = case["t"]
    und = _und(t)
    r1 = out.get("r1") if not out.get("_timeout") else "OutOfFuel"
    if max(und.values()) > 2:
        if r1 != "ValueError":
            bad("rejects_edge_in_more_than_two_triangles", f"{r1 if isinstance(r1, str) else 'returned'}")
        return V
    if r1 == "OutOfFuel":
        bad("orient_terminates", "no return within limit", "several_components" if case["family"].startswith("union") else None)
        return V
    if isinstance(r1, str):
        bad("orient_no_exception", r1)
        return V
    tn = r1["t"]
    if not r1["v_same"]:
        bad("keeps_vertex_array", "v changed")
    if len(tn) != len(t) or any(sorted(a) != sorted(b) for a, b in zip(tn, t)):
        bad("keeps_triangle_order_and_vertex_sets", "changed")
        return V
    if not _oriented(tn):
        bad("result_is_oriented", "a half-edge occurs twice after orient_")
    closed = all(c == 2 for c in und.values())
    if closed:
        p = np.array(case["v"], dtype=float)
        f = np.array(tn, dtype=int)
        terms = np.einsum("ij,ij->i", p[f[:, 0]], np.cross(p[f[:, 1]], p[f[:, 2]])) / 6
        vol = float(np.sum(terms))
        if vol < -1e-12 * float(np.abs(terms).sum()):
            bad("closed_volume_non_negative", f"volume {vol}")
    nchg = sum(1 for a, b in zip(t, tn) if _parity_changed(a, b))
    if r1["flipped"] != nchg:
        bad("returns_number_of_changed_windings", f"returned {r1['flipped']} changed {nchg}")
    r2 = out.get("r2")
    if isinstance(r2, str) or r2 is None:
        bad("second_call_no_exception", str(r2))
    else:
        if r2["flipped"] != 0:
            bad("second_call_returns_zero", f"{r2['flipped']}")
        if r2["t"] != tn:
            bad("second_call_changes_nothing", "triangles changed")
    return V


def nontrivial(case, out):
    r1 = out.get("r1")
    return isinstance(r1, str) or (isinstance(r1, dict) and r1["flipped"] > 0)


def case_key(case):
    return core.case_hash([case["v"], case["t"]])
