"""C03  eigs returns the smallest generalized eigenpairs, ordered and B-orthonormal."""
import numpy as np

from .. import core, femcommon as fc, gen_mesh as gm
from .c05 import components

ID = "C03"
LIMIT = 60.0
RULE = ("meshes as in C01 (closed, with boundary, 1-3 components incl. congruent translated copies, tria + tet, float64/float32) x "
        "k in 1..min(N-1, 8) x lump; eigenvalue gaps at the cut position k are required to exceed 1e-6 relative (ARPACK is not asked "
        "to split a cluster). distinct = hash of the case; non-trivial = k >= 2")
TRUSTED = ["ARPACK (eigsh) and SuperLU are oracles: their output is verified by the in-Coq certificate (residual, B-orthonormality, "
           "order) and, for completeness of the k smallest values, by the dense reference spectrum in the Python oracle"]
ASSUMPTIONS = ["certificate tolerances 1e-6 (float64) / 2e-3 (float32 meshes)"]
EXHAUSTIVE = {"quick": False, "thorough": False}
SHARD_BYTES = 100_000

COQ_HEADER = """From Coq Require Import List PrimFloat String.
From LaPyV Require Import Base.Scalar Base.Vec3 Base.ListAux Base.Sparse Model.TetMesh Model.TriaAdj Model.Fem Chk.Cmp Chk.C09 Chk.C05 Chk.C03.
Import ListNotations. Open Scope float_scope."""
COQ_CHECK = "check_c03"
COQ_LABELS = ["shapes", "eigen_equation", "B_orthonormal", "ascending"]


def generate(rng, tier):
    nt, nq = (45, 20) if tier == "quick" else (350, 150)
    base = fc.fem_mesh_cases(rng, tier, nt, nq, max_v=30)
    # congruent translated copies (exactly representable offsets)
    for nc in (2, 3, 4, 5):
        for bname in ("grid22", "grid32", "octa") + (("ico",) if nc == 3 else ()):
            for kk in (0, 1):
                v, t = {"grid22": lambda: gm.grid(2, 2, rng, None, "alt"), "grid32": lambda: gm.grid(3, 2, rng, None, "alt"),
                        "octa": gm.octahedron, "ico": gm.icosahedron}[bname]()
                vv, tt = [], []
                for c in range(nc):
                    off = len(vv)
                    vv += [[p[0] + 8.0 * c, p[1], p[2]] for p in v]
                    tt += [[i + off for i in r] for r in t]
                base.append({"kind": "tria", "family": "congruent_copies", "v": vv, "t": tt, "lump": rng.random() < 0.5,
                             "vdtype": "float64", "tdtype": "int64", "kplus": kk})
    cases = []
    for c in base:
        n = len(c["v"])
        if n < 4:
            continue
        if c["vdtype"] == "float32" and (c["family"].endswith("_scaled") or c["family"].endswith("_multiscale")):
            # single precision cannot resolve eigenvalues of ill-scaled pencils (A ~ 1, B ~ scale^2): conditioning, not logic
            c["vdtype"] = "float64"
        c["ncomp"] = len(components(n, c["t"]))
        c["k"] = rng.randint(1, min(n - 1, 8))
        if c["family"] == "congruent_copies":
            # exactly degenerate spectra of high multiplicity are beyond what Lanczos is asked to resolve here:
            # only the zero cluster (one zero per component) and the first value above it
            c["k"] = c["ncomp"] + c.get("kplus", 0)
        cases.append(c)
    return cases


def run_impl(case):
    import scipy.linalg
    from lapy import Solver
    out = {}
    try:
        m = fc.build_mesh(case)
        s = Solver(m, lump=case["lump"])
        A, B = s.stiffness.toarray().astype(float), s.mass.toarray().astype(float)
        ref = scipy.linalg.eigh((A + A.T) / 2, (B + B.T) / 2, eigvals_only=True)
        out["ref"] = ref.tolist()
        k = case["k"]
        # do not ask ARPACK to cut through a cluster
        spec = max(abs(ref[min(len(ref) - 1, 3)]), 1e-300)
        while k < len(ref) - 1 and abs(ref[k] - ref[k - 1]) <= 1e-6 * (spec + abs(ref[k])):
            k += 1
        if k > len(ref) - 1:
            k = case["k"]
        if case["family"] == "congruent_copies" and k != case["k"]:
            k = case["ncomp"]
        out["k"] = k
        try:
            w, V = s.eigs(k)
            out["w"] = np.asarray(w, dtype=float).tolist()
            out["V"] = np.asarray(V, dtype=float).T.tolist()
            # the Solver object after the call: its matrices are unchanged and a second call gives the same eigenvalues
            A2, B2 = s.stiffness.toarray().astype(float), s.mass.toarray().astype(float)
            out["solver_unchanged"] = bool(np.array_equal(A2, A) and np.array_equal(B2, B))
            w2, _V2 = s.eigs(k)
            out["w_again"] = np.asarray(w2, dtype=float).tolist()
        except Exception as e:
            out["w"] = core.errkind(e) + ":" + str(e)[:100]
        if not isinstance(out["w"], str):
            Vm = np.asarray(V, dtype=float)
            R = A @ Vm - (B @ Vm) * np.asarray(w, dtype=float)[None, :]
            scl = np.abs(A) @ np.abs(Vm) + (np.abs(B) @ np.abs(Vm)) * np.abs(np.asarray(w, dtype=float))[None, :] + 1e-300
            out["res_rel"] = float((np.abs(R) / scl.max(0)[None, :]).max())
            out["orth_err"] = float(np.abs(Vm.T @ B @ Vm - np.eye(Vm.shape[1])).max())
    except Exception as e:
        out["error"] = core.errkind(e)
        out["error_msg"] = str(e)[:300]
    return out


def coq_case(case, out):
    if "error" in out or isinstance(out.get("w"), str):
        return None
    f32 = case["vdtype"] == "float32"
    tol = "0x1.0624dd2f1a9fcp-9" if f32 else "0x1.0c6f7a0b5ed8dp-20"
    mesh = ("(MTria %s %s)" if case["kind"] == "tria" else "(MTet %s %s)") % (core.cv3list(case["v"]), core.ctuples(case["t"]))
    cols = "[" + "; ".join(core.cflist(c) for c in out["V"]) + "]"
    return "(%s, %s, %s, %s, %s)" % (tol, mesh, core.cbool(case["lump"]), core.cflist(out["w"]), cols)


def deg_wc_pre(case, out, sc):
    """witness class of F18 (cluster of >= 4 equal reference eigenvalues reaching into the requested range)"""
    allref = np.array(out["ref"])
    k = out["k"]
    i0 = 0
    while i0 < len(allref):
        j0 = i0
        while j0 + 1 < len(allref) and abs(allref[j0 + 1] - allref[i0]) <= 1e-9 * (sc + abs(allref[i0])):
            j0 += 1
        if j0 - i0 + 1 >= 4 and i0 < k:
            return "degenerate_multiplicity_ge4"
        i0 = j0 + 1
    return None


def oracle(case, out):
    V = []
    def bad(clause, detail, wc=None):
        V.append({"clause": clause, "detail": detail, "witness_class": wc})
    if "error" in out:
        bad("solver_constructs", out["error"] + ": " + out.get("error_msg", ""))
        return V
    if isinstance(out["w"], str):
        bad("eigs_no_exception", out["w"], out["w"].split(":")[0])
        return V
    f32 = case["vdtype"] == "float32"
    w = np.array(out["w"])
    k = out["k"]
    ref = np.array(out["ref"])[:k]
    allref = np.array(out["ref"])
    first_nonzero = abs(allref[min(case["ncomp"], len(allref) - 1)])
    sc = max(np.abs(ref).max(), first_nonzero, 1e-300)
    if len(w) != k:
        bad("returns_k_pairs", f"{len(w)} vs {k}")
        return V
    if out.get("solver_unchanged") is False:
        bad("solver_matrices_unchanged_by_eigs", "stiffness / mass of the Solver differ after eigs()")
    if "w_again" in out and len(out["w_again"]) == len(w) and np.abs(np.sort(out["w_again"]) - np.sort(w)).max() > (5e-3 if f32 else 1e-6) * sc:
        bad("eigs_repeatable_on_the_same_solver", f"second call {np.sort(out['w_again']).tolist()} first {np.sort(w).tolist()}", deg_wc_pre(case, out, sc))
    if out.get("res_rel", 0) > (5e-3 if f32 else 1e-6):
        bad("pairs_satisfy_eigen_equation", f"max relative residual {out['res_rel']}")
    if out.get("orth_err", 0) > (5e-3 if f32 else 1e-6):
        bad("eigenvectors_B_orthonormal", f"max |V^T B V - I| = {out['orth_err']}", "several_components" if case["ncomp"] > 1 else None)
    if np.any(np.diff(w) < -1e-8 * sc):
        bad("eigenvalues_ascending", f"{w.tolist()}")
    # clusters of (numerically) equal reference eigenvalues reaching into the requested range: Lanczos with a single start
    # vector is known to miss copies of exactly degenerate eigenvalues of high multiplicity (known finding F18)
    hi_mult = False
    i0 = 0
    while i0 < len(allref):
        j0 = i0
        while j0 + 1 < len(allref) and abs(allref[j0 + 1] - allref[i0]) <= 1e-9 * (sc + abs(allref[i0])):
            j0 += 1
        if j0 - i0 + 1 >= 4 and i0 < k:
            hi_mult = True
        i0 = j0 + 1
    deg_wc = "degenerate_multiplicity_ge4" if hi_mult else None
    if np.abs(np.sort(w) - ref).max() > (5e-3 if f32 else 1e-5) * sc:
        bad("k_smallest_agree_with_dense_reference", f"returned {np.sort(w).tolist()} reference {ref.tolist()}", deg_wc)
    ztol = (5e-3 if f32 else 1e-6) * sc
    nz_ref = int(np.sum(np.abs(np.array(out["ref"])) < ztol))
    if nz_ref == case["ncomp"] and k >= case["ncomp"]:
        if int(np.sum(np.abs(w) < ztol)) != case["ncomp"]:
            bad("one_zero_eigenvalue_per_component", f"{int(np.sum(np.abs(w) < ztol))} zeros for {case['ncomp']} components", deg_wc)
        else:
            # zero modes are constant on components
            comps = components(len(case["v"]), case["t"])
            Vm = np.array(out["V"])
            for j in np.where(np.abs(w) < ztol)[0]:
                for cc in comps:
                    vals = Vm[j][cc]
                    if np.abs(vals - vals.mean()).max() > (5e-2 if f32 else 1e-4) * (np.abs(Vm[j]).max() + 1e-300):
                        bad("zero_eigenvectors_constant_on_components", f"mode {j} varies on a component")
                        break
    return V


def nontrivial(case, out):
    return "error" not in out and out.get("k", 0) >= 2
