"""C19  Curvature flow / spherical projection return normalised same-topology meshes."""
import contextlib
import io
import math
import re

import numpy as np

from .. import core, gen_mesh as gm

ID = "C19"
LIMIT = 120.0
RULE = ("flow: closed meshes (spheres, ellipsoids, star-shaped perturbations of spheres, cube, octahedron, tori; two graded meshes with tiny triangles of ~1e-4 the mean area set into larger ones) and open meshes "
        "(height-field grids, cylinders), jitter, relabelling, scales 1e-2..1e2, int32/float32 inputs x max_iter in {0,1,2,3,5} x "
        "step in {0.1,0.5,1,2} x stop_eps in {1e-13,1e-6,1e-3}; projection: ellipsoid-like closed meshes with longest axis y "
        "(levels 1-2, axes ratios, star-shaped bumps), flipped orientation, open meshes (ValueError), flow_iter in {0,1,3}. "
        "distinct = hash of the case; non-trivial = at least one flow iteration on a mesh with >= 12 vertices")
TRUSTED = ["scipy.sparse.linalg.spsolve is an oracle: wrapped in the harness process, every (matrix, right-hand side, answer) is recorded "
           "and the answers are verified inside Coq against the model's system (M_i + step A0) X = M_i V_i",
           "ARPACK eigs inside tria_spherical_project is not modelled: only the projection to radius 100 and the quality gates are "
           "(fed with the recorded embedding after the flow and the printed 'spat vol')"]
ASSUMPTIONS = ["residual tolerance 1e-9 relative to the magnitude of the terms of each row"]
EXHAUSTIVE = {"quick": False, "thorough": False}
SHARD_BYTES = 120_000

COQ_HEADER = """From Coq Require Import List PrimFloat String.
From LaPyV Require Import Base.Scalar Base.Vec3 Base.ListAux Base.Sparse Model.TetMesh Model.TriaAdj Model.Fem Model.Flow Chk.Cmp Chk.C09 Chk.C19.
Import ListNotations. Open Scope float_scope."""
COQ_CHECK = "check_c19_multi"
COQ_LABELS = ["solver_answers_satisfy_flow_system", "stopping_rule", "returned_vertices", "connectivity", "projection_and_gates"]


def star(level, rng, amp):
    v, t = gm.ellipsoid(level, (1.0, 1.0, 1.0), "ico")
    v = np.array(v)
    d = np.array([rng.gauss(0, 1) for _ in range(3)])
    d /= np.linalg.norm(d)
    e = np.array([rng.gauss(0, 1) for _ in range(3)])
    e /= np.linalg.norm(e)
    f = 1 + amp * ((v @ d) ** 2 - 1 / 3) + 0.5 * amp * (v @ e) ** 3
    return (v * f[:, None]).tolist(), t


def graded(rng):
    """closed mesh with one or two tiny triangles (area ~1e-4 of the mean) set into larger ones: seven triangles replace one"""
    v, t = gm.ellipsoid(1, (1.0, rng.uniform(1.0, 1.4), rng.uniform(0.85, 1.1)), rng.choice(["ico", "octa"]))
    v = [list(p) for p in v]
    t = [list(r) for r in t]
    for _ in range(rng.choice([1, 2])):
        k = rng.randrange(len(t))
        a, b, c = t.pop(k)
        A, B, C = (np.array(v[i]) for i in (a, b, c))
        cen = (A + B + C) / 3
        r = rng.uniform(0.008, 0.015)
        n = len(v)
        v += [(cen + r * (X - cen)).tolist() for X in (A, B, C)]
        p, q, w = n, n + 1, n + 2
        t += [[a, b, q], [a, q, p], [b, c, w], [b, w, q], [c, a, p], [c, p, w], [p, q, w]]
    return v, t


def _flow_mesh(rng, tier):
    fam = rng.choice(["sphere", "ellipsoid", "star", "cube", "octa", "torus", "gridh", "cylinder", "star", "sphere", "ico", "graded"])
    if fam == "graded":
        v, t = graded(rng)
        return fam, v, t
    big = tier != "quick" and rng.random() < 0.3
    if fam == "sphere":
        v, t = gm.ellipsoid(2 if big else 1, (1.0, 1.0, 1.0), rng.choice(["ico", "octa"]))
    elif fam == "ellipsoid":
        v, t = gm.ellipsoid(1, (1.0, rng.uniform(1.2, 2.0), rng.uniform(0.8, 1.2)), rng.choice(["ico", "octa"]))
    elif fam == "star":
        v, t = star(2, rng, rng.uniform(0.15, 0.3))
    elif fam == "cylinder":
        from .c17 import cylinder
        v, t = cylinder(rng.randint(5, 8), rng.randint(3, 5), h=rng.uniform(0.3, 0.8))
    elif fam == "torus":
        v, t = gm.torus(rng.randint(4, 6), rng.randint(3, 5))
    else:
        v, t = gm.tria_family(fam, rng, small=True)
    return fam, v, t


def generate(rng, tier):
    cases = []
    n = 30 if tier == "quick" else 260
    while len(cases) < n:
        fam, v, t = _flow_mesh(rng, tier)
        if len(cases) < 2:
            fam = "graded"          # always present: element sizes spanning four orders of magnitude
            v, t = graded(rng)
        if len(t) < 4 or len(v) > (45 if (tier == "quick" and fam != "star") else 170):
            continue
        v, t = gm.compact(v, t)
        if fam not in ("sphere",) and rng.random() < 0.3:
            v = gm.jitter(v, rng, 0.02)
        if rng.random() < 0.3:
            v, t, _ = gm.relabel(v, t, rng)
        if len(cases) % 5 == 3:
            # inconsistently wound input: the flow does not depend on the winding and must hand the connectivity back as it was
            t, _ = gm.flip_some(t, rng, 0.4)
            fam = fam + "_mixed_winding"
        scale = rng.choice([1.0, 1.0, 1.0, 0.01, 100.0, 1e-5, 1e-9])        # metres .. nanometres: the FEM guards act on absolute areas
        off = [rng.uniform(-2, 2) * scale for _ in range(3)] if rng.random() < 0.5 else [0.0, 0.0, 0.0]
        v = (np.array(v, dtype=float) * scale + np.array(off)[None, :]).tolist()
        vd = rng.choice(["float64", "float64", "float64", "float32"])
        if vd == "float32":
            v = np.array(v, dtype=np.float32).astype(float).tolist()
        c = {"family": fam, "v": v, "t": t, "max_iter": rng.choice([0, 1, 1, 2, 3, 5]), "step": rng.choice([1.0, 1.0, 0.5, 2.0, 0.1]),
             "stop_eps": rng.choice([1e-13, 1e-13, 1e-6, 1e-3]), "scale": scale, "vdtype": vd, "tdtype": rng.choice(["int64", "int32"]),
             "project": None}
        if fam.startswith("graded"):
            c.update({"max_iter": rng.choice([2, 3]), "stop_eps": 1e-13})
        if fam.startswith("star") and rng.random() < 0.6:
            c.update({"max_iter": 10, "step": 1.0, "stop_eps": 1e-13})      # long enough for the smoothing to dominate
        cases.append(c)
    # projection cases
    npj = 8 if tier == "quick" else 40
    for i in range(npj):
        kind = rng.choice(["ellipsoid", "ellipsoid", "star_y", "open", "flipped", "sphere_like"]) if i >= 3 else "ellipsoid"
        lvl = 3 if kind != "open" else 1            # the area gate (0.99 of the sphere) needs a fine mesh
        if kind == "open":
            v, t = gm.grid(3, 3, rng, "smooth", "alt")
        else:
            ax = (rng.uniform(0.7, 0.95), rng.uniform(1.4, 2.2), rng.uniform(1.0, 1.25))
            if kind == "sphere_like":
                ax = (1.0, 1.05, 1.02)
            v, t = gm.ellipsoid(lvl, ax, "ico")
            if kind == "star_y":
                P = np.array(v)
                P = P * (1 + 0.08 * np.sin(3 * P[:, [1]]))
                v = P.tolist()
            if kind == "flipped":
                t = [[r[0], r[2], r[1]] for r in t]
        sc = rng.choice([1.0, 40.0])
        vd = "float64"
        if kind in ("ellipsoid", "star_y") and (i < 2 or rng.random() < 0.4):
            vd = ["int64", "float32"][i] if i < 2 else rng.choice(["int64", "float32"])     # voxel-grid coordinates / single precision
            sc = 40.0
        v = np.array(v, dtype=float) * sc
        if vd == "int64":
            v = np.round(v)
        v = v.astype(vd).astype(float).tolist()
        cases.append({"family": "project_" + kind, "v": v, "t": t, "max_iter": 0, "step": 1.0, "stop_eps": 1e-13, "scale": sc,
                      "vdtype": vd, "tdtype": "int64", "project": {"flow_iter": rng.choice([3, 3, 1, 0])}})
    return cases


class _Rec:
    def __init__(self):
        import scipy.sparse.linalg as sl
        self.sl = sl
        self.orig = sl.spsolve
        self.calls = []

    def __enter__(self):
        def f(A, b, *a, **k):
            x = self.orig(A, b, *a, **k)
            self.calls.append(np.array(x, dtype=float).copy())
            return x
        self.sl.spsolve = f
        return self

    def __exit__(self, *a):
        self.sl.spsolve = self.orig


def run_impl(case):
    from lapy import TriaMesh, diffgeo
    out = {}
    v = np.array(case["v"], dtype=float).astype(case["vdtype"])
    t = np.array(case["t"], dtype=case["tdtype"])
    sink = io.StringIO()
    if case["project"] is None:
        m = TriaMesh(v.copy(), t.copy())
        v0, t0 = m.v.copy(), m.t.copy()
        try:
            with _Rec() as rec, contextlib.redirect_stdout(sink):
                r = diffgeo.tria_mean_curvature_flow(m, max_iter=case["max_iter"], stop_eps=case["stop_eps"], step=case["step"])
            out["Xs"] = [x.tolist() for x in rec.calls]
            out["v"] = np.asarray(r.v, dtype=float).tolist()
            out["t"] = np.asarray(r.t).astype(int).tolist()
            out["is_new_object"] = bool(r is not m)
            out["area"] = float(r.area())
            out["centroid"] = np.asarray(r.centroid()[0], dtype=float).tolist()
        except Exception as e:
            out["error"] = core.errkind(e) + ":" + str(e)[:120]
        out["untouched"] = bool(np.array_equal(m.v, v0) and np.array_equal(m.t, t0) and m.v.dtype == v0.dtype)
    else:
        m = TriaMesh(v.copy(), t.copy())
        v0, t0 = m.v.copy(), m.t.copy()
        rec = {}
        orig = diffgeo.tria_mean_curvature_flow
        orig_eigs = diffgeo.Solver.eigs

        def wrapped(tr, *a, **k):
            rec["vn_in"] = np.asarray(tr.v, dtype=float).copy()
            r = orig(tr, *a, **k)
            rec["vn"] = np.asarray(r.v, dtype=float).copy()
            return r

        def wrapped_eigs(self, *a, **k):
            w, V = orig_eigs(self, *a, **k)
            rec["evecs"] = np.asarray(V, dtype=float).copy()
            return w, V
        diffgeo.tria_mean_curvature_flow = wrapped
        diffgeo.Solver.eigs = wrapped_eigs
        try:
            with contextlib.redirect_stdout(sink):
                r = diffgeo.tria_spherical_project(m, flow_iter=case["project"]["flow_iter"])
            out["pv"] = np.asarray(r.v, dtype=float).tolist()
            out["pt"] = np.asarray(r.t).astype(int).tolist()
            out["pvol"] = float(r.volume()) if r.is_oriented() else None
        except Exception as e:
            out["perror"] = core.errkind(e) + ":" + str(e)[:120]
        finally:
            diffgeo.tria_mean_curvature_flow = orig
            diffgeo.Solver.eigs = orig_eigs
        if "vn" in rec:
            out["vn"] = rec["vn"].tolist()
        if "vn_in" in rec:
            out["vn_in"] = rec["vn_in"].tolist()
        if "evecs" in rec:
            out["evecs"] = rec["evecs"][:, 1:4].T.tolist()
        mm = re.search(r"spat vol: ([0-9.eE+-]+|nan|inf)", sink.getvalue())
        if mm:
            out["spatvol"] = float(mm.group(1))
        out["untouched"] = bool(np.array_equal(m.v, v0) and np.array_equal(m.t, t0))
        out["in_closed"] = bool(m.is_closed())
        out["in_vol"] = float(m.volume()) if (m.is_closed() and m.is_oriented()) else None
    return out


def coq_case(case, out):
    # float32 vertices: normalisation, mass and the first solve run in single precision
    tol = "0x1.12e0be826d695p-30" if case["vdtype"] == "float64" else "0x1.a36e2eb1c432dp-14"
    if case["project"] is None:
        if "error" in out:
            return None
        Xs = "[" + "; ".join(core.cv3list(x) for x in out["Xs"]) + "]"
        return "[CFlow %s %s %s %d%%nat %s %s %s %s %s]" % (
            tol, core.cv3list(np.array(case["v"], dtype=float).astype(case["vdtype"]).astype(float).tolist()), core.ctuples(case["t"]),
            case["max_iter"], core.cfloat(case["stop_eps"]), core.cfloat(case["step"]), Xs, core.cv3list(out["v"]), core.ctuples(out["t"]))
    parts = []
    v64 = np.array(case["v"], dtype=float).astype(case["vdtype"]).astype(float).tolist()
    if "evecs" in out and out["in_closed"]:
        e1, e2, e3 = out["evecs"]
        if "vn_in" in out and "spatvol" in out:
            obs = "(Ok (%s, %s))" % (core.cv3list(out["vn_in"]), core.cfloat(out["spatvol"]))
        elif "spatvol" not in out and out.get("perror", "").startswith("ValueError:Direction 1"):
            obs = "(Err ValueError)"
        else:
            obs = None          # flow_iter = 0: the embedding is not observable separately
        if obs is not None:
            parts.append("CEmbed %s %s %s %s %s %s" % (tol, core.cv3list(v64), core.cflist(e1), core.cflist(e2), core.cflist(e3), obs))
    if "vn" in out and "spatvol" in out:
        if "pv" in out:
            obs = "(Ok %s)" % core.cv3list(out["pv"])
        elif out["perror"].startswith("ValueError"):
            obs = "(Err ValueError)"
        else:
            obs = "(Err OtherError)"
        parts.append("CProj %s %s %s %s %s %s" % (tol, core.ctuples(case["t"]), core.cfloat(4.0 * math.pi * 10000), core.cfloat(out["spatvol"]),
                                                 core.cv3list(out["vn"]), obs))
    if not parts:
        return None
    return "[" + "; ".join(parts) + "]"


# ---------------------------------------------------------------------- reference (dense, independent of the recorded answers)
def _areas(P, T):
    return 0.5 * np.linalg.norm(np.cross(P[T[:, 1]] - P[T[:, 0]], P[T[:, 2]] - P[T[:, 0]]), axis=1)


def _normalize(P, T):
    a = _areas(P, T)
    c = ((P[T[:, 0]] + P[T[:, 1]] + P[T[:, 2]]) / 3 * a[:, None]).sum(0) / a.sum()
    return (P - c) / math.sqrt(a.sum())


def _cot_stiffness(P, T):
    n = len(P)
    A = np.zeros((n, n))
    for r in T:
        for k in range(3):
            i, j, o = r[k], r[(k + 1) % 3], r[(k + 2) % 3]
            u, w = P[i] - P[o], P[j] - P[o]
            cot = np.dot(u, w) / np.linalg.norm(np.cross(u, w))
            A[i, j] -= cot / 2
            A[j, i] -= cot / 2
            A[i, i] += cot / 2
            A[j, j] += cot / 2
    return A


def _lumped(P, T):
    m = np.zeros(len(P))
    a = _areas(P, T)
    for k in range(3):
        np.add.at(m, T[:, k], a / 3)
    return m


def reference_flow(P, T, max_iter, stop_eps, step):
    V = _normalize(P, T)
    A0 = _cot_stiffness(V, T)
    for _ in range(max_iter):
        m = _lumped(V, T)
        X = np.linalg.solve(np.diag(m) + step * A0, m[:, None] * V)
        Vn = _normalize(X, T)
        dv = Vn - V
        diff = float(np.sum(np.sum(dv * (m[:, None] * dv), axis=0) ** 2))
        V = Vn
        if diff < stop_eps:
            break
    return V


def _spread(P, T):
    V = _normalize(P, T)
    r = np.linalg.norm(V, axis=1)
    return float(r.std() / r.mean())


def oracle(case, out):
    V = []
    def bad(clause, detail, wc=None):
        V.append({"clause": clause, "detail": detail, "witness_class": wc})
    P = np.array(case["v"], dtype=float).astype(case["vdtype"]).astype(float)
    T = np.array(case["t"], dtype=int)
    if not out.get("untouched", True):
        bad("argument_untouched", "the mesh passed in was modified")
    if case["project"] is None:
        if "error" in out:
            bad("flow_no_exception", out["error"])
            return V
        R = np.array(out["v"])
        if out["t"] != T.tolist():
            bad("flow_keeps_connectivity", "t differs")
        if not out["is_new_object"]:
            bad("flow_returns_new_mesh", "same object returned")
        rt = 1e-3 if case["vdtype"] == "float32" else 1e-9
        if abs(out["area"] - 1) > rt:
            bad("flow_result_unit_area", f"area {out['area']}")
        if np.abs(np.array(out["centroid"])).max() > rt:
            bad("flow_result_centroid_at_origin", f"centroid {out['centroid']}")
        if len(out["Xs"]) > case["max_iter"]:
            bad("flow_at_most_max_iter_iterations", f"{len(out['Xs'])} solves for max_iter {case['max_iter']}")
        ref = reference_flow(P, T, case["max_iter"], case["stop_eps"], case["step"])
        dev = 1e-4 if case["vdtype"] == "float32" else 1e-6
        if R.shape != ref.shape or np.abs(R - ref).max() > dev:
            # near the stopping threshold reference and implementation may stop one iteration apart
            alt = [reference_flow(P, T, k, 0.0, case["step"]) for k in range(case["max_iter"] + 1)]
            if not any(a.shape == R.shape and np.abs(R - a).max() <= dev for a in alt):
                bad("flow_iterates_solve_M_plus_step_A0", f"max deviation from the reference iteration {np.abs(R - ref).max() if R.shape == ref.shape else 'shape'}")
        if case["family"] == "sphere" and case["max_iter"] >= 1 and len(P) >= 40:
            d = np.abs(R - _normalize(P, T)).max()
            if d > 0.02:
                bad("sphere_is_fixed_point_up_to_discretisation", f"max displacement {d} (radius 0.28)")
        if case["family"] == "star" and case["max_iter"] >= 10 and case["step"] >= 1.0 and case["stop_eps"] < 1e-10:
            if _spread(R, T) >= _spread(P, T):
                bad("star_shaped_radial_spread_decreases", f"{_spread(P, T)} -> {_spread(R, T)}")
    else:
        if not out["in_closed"]:
            if not out.get("perror", "").startswith("ValueError"):
                bad("projection_rejects_non_closed", str(out.get("perror", "returned a mesh")))
            return V
        if "perror" in out:
            if not out["perror"].startswith("ValueError"):
                bad("projection_raises_only_ValueError", out["perror"])
            return V
        R = np.array(out["pv"])
        if out["pt"] != T.tolist():
            bad("projection_keeps_connectivity", "t differs")
        if np.abs(np.linalg.norm(R, axis=1) - 100).max() > 1e-9 * 100:
            bad("projection_radius_100", f"max | |v| - 100 | = {np.abs(np.linalg.norm(R, axis=1) - 100).max()}")
        if out["in_vol"] is not None and out["in_vol"] > 0 and (out["pvol"] is None or out["pvol"] <= 0):
            bad("projection_preserves_outward_orientation", f"input volume {out['in_vol']}, output volume {out['pvol']}")
        Pc = P - P.mean(0)
        for k, nm in enumerate("xyz"):
            if float(np.sum(Pc[:, k] * R[:, k])) <= 0:
                bad("projection_axes_positively_aligned", f"axis {nm}: correlation {float(np.sum(Pc[:, k] * R[:, k]))}")
    return V


def nontrivial(case, out):
    return case["project"] is None and "Xs" in out and len(out["Xs"]) >= 1 and len(case["v"]) >= 12
