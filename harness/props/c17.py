"""C17  Curvature output is a consistent principal frame, invariant under similarity."""
import math

import numpy as np

from .. import core, gen_mesh as gm

ID = "C17"
LIMIT = 60.0
RULE = ("oriented edge-manifold triangle meshes (closed: tetrahedron, octahedron, cube, icosahedron, tori, spheres and ellipsoids "
        "level 1-2; with boundary: height-field grids, open cylinders, saddles, Delaunay height fields; jitter, relabelling, scales "
        "1e-2..1e2) x smoothit 0..10 x one rotated+translated+scaled+relabelled copy per case. "
        "distinct = hash of the case; non-trivial = curved mesh (some |curvature| > 1e-3) with >= 8 vertices")
TRUSTED = ["np.linalg.eig is an oracle: its argument and result are recorded (np.linalg.eig is wrapped in the harness process, /repo is "
           "not touched); the model must reproduce the argument and, fed with the result and the implementation's vertex normals, the outputs",
           "np.arccos (stand-in Base/FloatFun.v, 1e-15), np.add.at, np.argsort on rows of three (insertion sort, stable)"]
ASSUMPTIONS = ["directions are compared between a mesh and its transformed copy only up to sign and only where the two principal values "
               "differ by more than 1e-3 of the largest magnitude (eigenvector selection is unstable at umbilics)",
               "frame checks on triangles skip those whose projected direction is shorter than 1e-3 before normalisation"]
EXHAUSTIVE = {"quick": False, "thorough": False}
SHARD_BYTES = 150_000

COQ_HEADER = """From Coq Require Import List PrimFloat String.
From LaPyV Require Import Base.Scalar Base.Vec3 Base.ListAux Model.TetMesh Model.TriaAdj Model.Curvature Chk.Cmp Chk.C09 Chk.C17.
Import ListNotations. Open Scope float_scope."""
COQ_CHECK = "check_c17"
COQ_LABELS = ["tensors_handed_to_eig", "curvature_outputs_from_eig_result", "curvature_tria"]


def cylinder(m, n, h=1.0, r=1.0):
    v = [[r * math.cos(2 * math.pi * i / m), r * math.sin(2 * math.pi * i / m), h * j] for j in range(n) for i in range(m)]
    t = []
    for j in range(n - 1):
        for i in range(m):
            a, b = j * m + i, j * m + (i + 1) % m
            c, d = a + m, b + m
            t += [[a, b, d], [a, d, c]]
    return v, t


def saddle(m):
    v, t = gm.grid(m, m, None, None, "alt")
    v = [[p[0], p[1], 0.3 * ((p[0] - m / 2) ** 2 - (p[1] - m / 2) ** 2) / m] for p in v]
    return v, t


def _mesh(rng, tier):
    fam = rng.choice(["tetra", "octa", "cube", "ico", "torus", "sphere", "ellipsoid", "gridh", "cylinder", "saddle", "delaunay", "cylinder", "sphere"])
    big = tier != "quick" and rng.random() < 0.4
    if fam == "sphere":
        v, t = gm.ellipsoid(2 if big else 1, (1.0, 1.0, 1.0), rng.choice(["ico", "octa"]))
    elif fam == "cylinder":
        v, t = cylinder(rng.randint(8, 16) if big else rng.randint(6, 9), rng.randint(5, 7) if big else rng.randint(4, 5), h=rng.uniform(0.3, 0.8))
    elif fam == "saddle":
        v, t = saddle(rng.randint(3, 6 if big else 4))
    elif fam == "torus":
        v, t = gm.torus(rng.randint(5, 9 if big else 6), rng.randint(4, 7 if big else 5))
    else:
        v, t = gm.tria_family(fam, rng, small=not big)
    return fam, v, t


def generate(rng, tier):
    cases = []
    n = 36 if tier == "quick" else 200
    while len(cases) < n:
        fam, v, t = _mesh(rng, tier)
        if len(t) < 4 or len(v) > (60 if tier == "quick" else 100):
            continue
        v, t = gm.compact(v, t)
        if not gm.is_manifold_oriented(t):
            continue
        if rng.random() < 0.4 and fam not in ("sphere", "cylinder"):
            v = gm.jitter(v, rng, 0.03)
        if rng.random() < 0.3:
            v, t, _ = gm.relabel(v, t, rng)
        scale = rng.choice([1.0, 1.0, 1.0, 0.01, 100.0])
        v = (np.array(v, dtype=float) * scale).tolist()
        q = np.array(gm.random_rotation(rng))
        if np.linalg.det(q) < 0:
            q[:, 0] = -q[:, 0]
        s = rng.choice([1.0, 0.5, 3.0, 1e-2, 50.0])
        b = [rng.uniform(-3, 3) * scale for _ in range(3)]
        perm = list(range(len(v)))
        rng.shuffle(perm)                       # new index of old vertex i is perm[i]
        cases.append({"family": fam, "v": v, "t": t, "k": rng.choice([0, 1, 2, 3, 3, 5, 10] if len(v) <= 50 else [0, 1, 2, 3]), "scale": scale,
                      "Q": q.tolist(), "s": s, "b": b, "perm": perm})
    return cases


class _EigRecorder:
    """wraps np.linalg.eig and np.linalg.eigh for the duration of one case (whichever the code calls on (n,3,3) stacks)"""
    def __init__(self):
        self.calls = []
        self.orig = {"eig": np.linalg.eig, "eigh": np.linalg.eigh}

    def wrap(self, name):
        def f(a, *args, **kw):
            r = self.orig[name](a, *args, **kw)
            if np.ndim(a) == 3 and np.shape(a)[1:] == (3, 3):
                self.calls.append((np.array(a, dtype=float).copy(), np.array(np.real(r[0]), dtype=float).copy(),
                                   np.array(np.real(r[1]), dtype=float).copy()))
            return r
        return f

    def install(self):
        np.linalg.eig = self.wrap("eig")
        np.linalg.eigh = self.wrap("eigh")

    def remove(self):
        np.linalg.eig = self.orig["eig"]
        np.linalg.eigh = self.orig["eigh"]


def _curv(m, k):
    r = m.curvature(k)
    return {"u_min": np.asarray(r[0], float).tolist(), "u_max": np.asarray(r[1], float).tolist(), "c_min": np.asarray(r[2], float).tolist(),
            "c_max": np.asarray(r[3], float).tolist(), "c_mean": np.asarray(r[4], float).tolist(), "c_gauss": np.asarray(r[5], float).tolist(),
            "normals": np.asarray(r[6], float).tolist()}


def run_impl(case):
    from lapy import TriaMesh
    out = {}
    v = np.array(case["v"], dtype=float)
    t = np.array(case["t"], dtype=int)
    rec = _EigRecorder()
    rec.install()
    try:
        m = TriaMesh(v.copy(), t.copy())
        try:
            out["curv"] = _curv(m, case["k"])
            a, w, V = rec.calls[0]
            out["mats6"] = [a[:, 0, 0].tolist(), a[:, 0, 1].tolist(), a[:, 0, 2].tolist(), a[:, 1, 1].tolist(), a[:, 1, 2].tolist(), a[:, 2, 2].tolist()]
            out["mats_sym"] = bool(np.array_equal(a, np.transpose(a, (0, 2, 1))))
            out["evals"] = w.tolist()
            out["evecs"] = V.tolist()
            out["vnormals"] = np.asarray(m.vertex_normals(), float).tolist()
        except Exception as e:
            out["curv"] = core.errkind(e) + ":" + str(e)[:100]
        try:
            r = m.curvature_tria(case["k"])
            out["tria"] = {"u_min": np.asarray(r[0], float).tolist(), "u_max": np.asarray(r[1], float).tolist(),
                           "c_min": np.asarray(r[2], float).tolist(), "c_max": np.asarray(r[3], float).tolist()}
        except Exception as e:
            out["tria"] = core.errkind(e) + ":" + str(e)[:100]
        out["untouched"] = bool(np.array_equal(m.v, v) and np.array_equal(m.t, t))
        # history: the same object after in-place changes must answer like a fresh object built from its current v, t
        try:
            mh = TriaMesh(v.copy(), t.copy())
            mh.curvature(case["k"])
            ops = []
            if len(v) <= 30:
                mh.refine_()
                ops.append("refine_")
            else:
                mh.t = mh.t[:, [0, 2, 1]].copy()
                mh.__init__(mh.v, mh.t)
                ops.append("reinit_flipped")
            mh.normalize_()
            ops.append("normalize_")
            a = _curv(mh, case["k"])
            b = _curv(TriaMesh(mh.v.copy(), mh.t.copy()), case["k"])
            out["history"] = {"ops": ops, "equal": bool(all(np.allclose(a[q], b[q], rtol=0, atol=1e-12) for q in ("c_min", "c_max", "c_mean", "c_gauss")))}
        except Exception as e:
            out["history"] = {"ops": [], "equal": False, "error": core.errkind(e) + ":" + str(e)[:100]}
        # transformed copy
        Q = np.array(case["Q"])
        perm = np.array(case["perm"])
        v2 = np.empty_like(v)
        v2[perm] = case["s"] * (v @ Q.T) + np.array(case["b"])[None, :]
        t2 = perm[t]
        try:
            m2 = TriaMesh(v2, t2)
            out["curv2"] = _curv(m2, case["k"])
        except Exception as e:
            out["curv2"] = core.errkind(e) + ":" + str(e)[:100]
    finally:
        rec.remove()
    return out


def _curv_rec(c, i):
    return "(mk_curv %s %s %s %s %s %s %s)" % (core.cv3(c["u_min"][i]), core.cv3(c["u_max"][i]), core.cfloat(c["c_min"][i]),
                                            core.cfloat(c["c_max"][i]), core.cfloat(c["c_mean"][i]), core.cfloat(c["c_gauss"][i]),
                                            core.cv3(c["normals"][i]))


def coq_case(case, out):
    if isinstance(out.get("curv"), str) or isinstance(out.get("tria"), str):
        return None
    n = len(case["v"])
    c = out["curv"]
    V = np.array(out["evecs"])
    eigs = "[" + "; ".join("(mk_eig %s %s %s %s)" % (core.cv3(out["evals"][i]), core.cv3(V[i][:, 0]), core.cv3(V[i][:, 1]), core.cv3(V[i][:, 2]))
                           for i in range(n)) + "]"
    curv = "[" + "; ".join(_curv_rec(c, i) for i in range(n)) + "]"
    tr = out["tria"]
    P = np.array(case["v"])
    T = np.array(case["t"])
    um = np.array(c["u_min"])
    tum = (um[T[:, 0]] + um[T[:, 1]] + um[T[:, 2]]) / 3
    tn = np.cross(P[T[:, 1]] - P[T[:, 0]], P[T[:, 2]] - P[T[:, 0]])
    tn = tn / np.maximum(np.linalg.norm(tn, axis=1), 1e-8)[:, None]
    w = tum - tn * np.sum(tn * tum, axis=1)[:, None]
    cmp = (np.linalg.norm(w, axis=1) > 1e-3).tolist()
    tria = "[" + "; ".join("(%s, %s, %s, %s)" % (core.cv3(tr["u_min"][i]), core.cv3(tr["u_max"][i]), core.cfloat(tr["c_min"][i]),
                                                core.cfloat(tr["c_max"][i])) for i in range(len(T))) + "]"
    cols = "(Ok [" + "; ".join(core.cflist(col) for col in out["mats6"]) + "])"
    return "(%s, %s, %s, %d%%nat, %s, %s, %s, %s, %s, %s)" % (
        "0x1.12e0be826d695p-27", core.cv3list(case["v"]), core.ctuples(case["t"]), case["k"], cols, eigs,
        core.cv3list(out["vnormals"]), curv, tria, core.cblist(cmp))


def oracle(case, out):
    V = []
    def bad(clause, detail, wc=None):
        V.append({"clause": clause, "detail": detail, "witness_class": wc})
    if isinstance(out.get("curv"), str):
        bad("curvature_no_exception", out["curv"])
        return V
    if not out["untouched"]:
        bad("mesh_not_modified", "v or t changed")
    if "history" in out and not out["history"]["equal"]:
        bad("curvature_depends_on_current_mesh_only", f"after curvature(); {'; '.join(out['history']['ops'])}: curvature() differs from a fresh object "
            + out["history"].get("error", ""))
    if not out["mats_sym"]:
        bad("tensors_symmetric", "matrix handed to eig is not symmetric")
    c = {k: np.array(x) for k, x in out["curv"].items()}
    vn = np.array(out["vnormals"])
    cm = max(np.abs(c["c_min"]).max(), np.abs(c["c_max"]).max(), 1e-300)
    if not np.all(np.isfinite(c["c_min"])) or not np.all(np.isfinite(c["u_min"])):
        bad("curvature_finite", "non-finite output")
        return V
    if np.any(c["c_min"] > c["c_max"]):
        bad("c_min_le_c_max", f"vertex {int(np.argmax(c['c_min'] - c['c_max']))}")
    if np.abs(c["c_mean"] - (c["c_min"] + c["c_max"]) / 2).max() > 1e-12 * cm:
        bad("mean_is_half_sum", "differs")
    if np.abs(c["c_gauss"] - c["c_min"] * c["c_max"]).max() > 1e-12 * cm * cm:
        bad("gauss_is_product", "differs")
    ot = 1e-6
    for a in ("u_min", "u_max", "normals"):
        if np.abs(np.linalg.norm(c[a], axis=1) - 1).max() > ot:
            bad("directions_unit", f"{a}: max | |u|-1 | = {np.abs(np.linalg.norm(c[a], axis=1) - 1).max()}")
    for a, b in (("u_min", "u_max"), ("u_min", "normals"), ("u_max", "normals")):
        d = np.abs(np.sum(c[a] * c[b], axis=1))
        if d.max() > ot:
            bad("directions_mutually_orthogonal", f"{a}.{b} = {d.max()} at vertex {int(d.argmax())}", "eig_nonorthogonal")
    rh = np.sum(np.cross(c["u_min"], c["u_max"]) * c["normals"], axis=1)
    if rh.min() < 1 - 1e-5:
        bad("right_handed_frame", f"min (u_min x u_max).n = {rh.min()}")
    if np.sum(c["normals"] * vn, axis=1).min() < -1e-12:
        bad("normal_on_side_of_vertex_normal", f"min n.vn = {np.sum(c['normals'] * vn, axis=1).min()}")
    # curvature_tria
    if isinstance(out.get("tria"), str):
        bad("curvature_tria_no_exception", out["tria"])
    else:
        tr = {k: np.array(x) for k, x in out["tria"].items()}
        P = np.array(case["v"])
        T = np.array(case["t"])
        tn = np.cross(P[T[:, 1]] - P[T[:, 0]], P[T[:, 2]] - P[T[:, 0]])
        tn = tn / np.linalg.norm(tn, axis=1)[:, None]
        tum = (c["u_min"][T[:, 0]] + c["u_min"][T[:, 1]] + c["u_min"][T[:, 2]]) / 3
        w = tum - tn * np.sum(tn * tum, axis=1)[:, None]
        ok = np.linalg.norm(w, axis=1) > 1e-3
        if ok.any():
            for a in ("u_min", "u_max"):
                if np.abs(np.linalg.norm(tr[a][ok], axis=1) - 1).max() > 1e-6:
                    bad("tria_directions_unit", a)
                if np.abs(np.sum(tr[a][ok] * tn[ok], axis=1)).max() > 1e-6:
                    bad("tria_directions_in_triangle_plane", a)
            if np.abs(np.sum(tr["u_min"][ok] * tr["u_max"][ok], axis=1)).max() > 1e-6:
                bad("tria_directions_orthogonal", "u_min.u_max")
    # similarity invariance
    if isinstance(out.get("curv2"), str):
        bad("curvature_no_exception_on_transformed_copy", out["curv2"])
    else:
        c2 = {k: np.array(x) for k, x in out["curv2"].items()}
        perm = np.array(case["perm"])
        Q = np.array(case["Q"])
        # the vertex normal selects the eigenvector: skip vertices where the selection is (nearly) tied
        Vv = np.array(out["evecs"])
        keys = np.sort(np.abs(np.einsum("vrj,vr->vj", Vv, vn)), axis=1)
        stable = (keys[:, 2] - keys[:, 1]) > 1e-4
        for a in ("c_min", "c_max", "c_mean"):
            d = np.abs(c2[a][perm] - c[a])[stable]
            if d.size and d.max() > 1e-7 * cm + 2e-7:
                bad("values_invariant_under_similarity", f"{a}: max diff {d.max()} (scale of values {cm})")
                break
        d = np.abs(c2["c_gauss"][perm] - c["c_gauss"])[stable]
        if d.size and d.max() > 1e-7 * cm * cm + 2e-7 * cm + 1e-13:
            bad("values_invariant_under_similarity", f"c_gauss: max diff {d.max()}")
        # directions: within an eigenspace of the tensor of dimension >= 2 the eigenvectors are not determined
        ev = np.sort(np.array(out["evals"]), axis=1)
        evm = max(np.abs(ev).max(), 1e-300)
        nondeg = np.minimum(ev[:, 1] - ev[:, 0], ev[:, 2] - ev[:, 1]) > 1e-3 * evm
        for a in ("u_min", "u_max", "normals"):
            al = np.abs(np.sum((c[a] @ Q.T) * c2[a][perm], axis=1))
            failing = stable & (al < 1 - 1e-5)
            if (failing & nondeg).any():
                i = int(np.argmax(failing & nondeg))
                bad("directions_rotate_with_mesh", f"{a}: |cos| = {al[i]} at vertex {i} (tensor eigenvalues {ev[i].tolist()})")
                break
            if failing.any():
                i = int(np.argmax(failing))
                bad("directions_rotate_with_mesh", f"{a}: |cos| = {al[i]} at vertex {i} whose tensor has a repeated eigenvalue {ev[i].tolist()}",
                    "degenerate_eigenspace")
                break
    # shape-specific statements
    P = np.array(case["v"])
    if case["family"] == "cylinder" and case["k"] >= 1:
        z = P[:, 2] / case["scale"]
        inner = (z > z.min() + 1e-9) & (z < z.max() - 1e-9)
        small_is_min = np.abs(c["c_min"]) < np.abs(c["c_max"])
        d = np.where(small_is_min[:, None], c["u_min"], c["u_max"])
        al = np.abs(d[:, 2])[inner]
        if al.size and al.min() < 0.9:
            bad("cylinder_flat_direction_follows_axis", f"min |cos(direction, axis)| = {al.min()}")
    if case["family"] == "sphere" and case["k"] >= 1:
        rel = np.abs(c["c_max"] - c["c_min"]) / np.maximum(np.abs(c["c_mean"]), 1e-300)
        if rel.max() > 0.35:
            bad("sphere_principal_values_coincide", f"max |c_max-c_min|/|mean| = {rel.max()}")
    return V


def nontrivial(case, out):
    if isinstance(out.get("curv"), str):
        return False
    return len(case["v"]) >= 8 and max(abs(x) for x in out["curv"]["c_max"]) > 1e-3
