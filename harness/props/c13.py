"""C13  Geometric measures obey their defining formulas and transformation laws."""
import math

import numpy as np

from .. import core, gen_mesh as gm

ID = "C13"
LIMIT = 30.0
RULE = ("triangle meshes: grids/height fields (obtuse, scalene), fans, annuli, polyhedra, tori, Delaunay, unions, books, Moebius, "
        "thin zig-zag strips (aspect 1e-3..1e-7), equilateral patches; flips, relabelling, unused vertices, scales 1e-4..1e3, "
        "translations up to 1e3 and one by 1e6 diameters (avg_edge_length, volume), float32; tet meshes for avg_edge_length; offsets d in {+-0.1, 0.5, -2}; two successive offsets on one "
        "object. distinct = hash of the case; non-trivial = at least one non-right scalene triangle (quality not in {1, sqrt(3)/2})")
TRUSTED = ["np.bincount / np.add.at / np.sum / np.mean summation order (modelled up to rounding)"]
ASSUMPTIONS = ["all comparisons at 1e-9 relative to the vector scale (1e-4 for float32 input)"]
EXHAUSTIVE = {"quick": False, "thorough": False}
SHARD_BYTES = 120_000

COQ_HEADER = """From Coq Require Import List PrimFloat String.
From LaPyV Require Import Base.Scalar Base.Vec3 Base.ListAux Base.Sparse Model.TetMesh Model.TriaAdj Model.TriaOrient Model.TriaGeom Chk.Cmp Chk.C09 Chk.C13.
Import ListNotations. Open Scope float_scope."""
COQ_CHECK = "check_c13"
COQ_LABELS = ["tria_areas", "area", "vertex_areas", "volume", "centroid", "centroid_area", "tria_normals", "vertex_normals",
              "tria_qualities", "avg_edge_length", "normalize_", "normal_offset_"]


def zigzag(k, h):
    v, t = [], []
    for i in range(k + 1):
        v.append([0.3 * i, 0.0, 0.0])
        v.append([0.3 * i + 0.15, h, 0.0])
    for i in range(k):
        a, b, c, d = 2 * i, 2 * i + 1, 2 * i + 2, 2 * i + 3
        t += [[a, c, b], [b, c, d]]
    return v, t


def equilateral_patch():
    s = math.sqrt(3) / 2
    v = [[0.0, 0.0, 0.0], [1.0, 0.0, 0.0], [0.5, s, 0.0], [1.5, s, 0.0], [-0.5, s, 0.0]]
    t = [[0, 1, 2], [1, 3, 2], [0, 2, 4]]
    return v, t


def fc_min_quality(v, t):
    from .. import femcommon as fc
    return fc.min_tria_quality(v, t)


def generate(rng, tier):
    cases = []
    n = 90 if tier == "quick" else 900
    fams = gm.TRIA_FAMILIES + ["zigzag", "equilateral", "gridh", "delaunay"]
    i = 0
    while len(cases) < n:
        fam = fams[i % len(fams)]
        i += 1
        if fam == "zigzag":
            v, t = zigzag(rng.randint(2, 5), rng.choice([1e-3, 1e-5, 1e-6, 1e-7]))
        elif fam == "equilateral":
            v, t = equilateral_patch()
        else:
            v, t = gm.tria_family(fam, rng, small=True)
        if len(t) < 3 or len(v) > 40:
            continue
        if fam in ("grid", "fan", "cube", "octa", "tetra", "annulus"):
            v = gm.jitter(v, rng, 0.12)
        if rng.random() < 0.25:
            t, _ = gm.flip_some(t, rng, rng.choice([0.3, 1.0]))
        if rng.random() < 0.2:
            v, t = gm.add_unused(v, t, rng)
        if rng.random() < 0.3:
            v, t, _ = gm.relabel(v, t, rng)
        r = rng.random()
        if r < 0.2:
            v = (np.array(v) * rng.choice([1e-4, 1e-2, 30.0, 1e3])).tolist()
        elif r < 0.35:
            v = (np.array(v) + np.array([rng.choice([10.0, 1e3]), -7.0, 3.0])).tolist()
        vd = "float32" if rng.random() < 0.15 and fam != "zigzag" else "float64"
        if vd == "float64" and fam not in ("zigzag", "equilateral") and rng.random() < 0.12:
            # voxel-grid coordinates stored as integers
            vi = np.round(np.array(v) * 8.0)
            if fc_min_quality(vi.tolist(), t) > 0.05:
                v, vd = vi.tolist(), "int64"
        if vd == "float32":
            v = np.array(v, dtype=np.float32).astype(float).tolist()
        cases.append({"kind": "tria", "family": fam, "v": v, "t": t, "vdtype": vd, "d": rng.choice([0.1, -0.1, 0.5, -2.0]),
                      "tseed": rng.randrange(1 << 30)})
    # a closed surface and an open patch in nanometre units (areas ~1e-18: the geometry queries must not treat them as degenerate)
    for v, t in (gm.ellipsoid(1, (1.0, 1.4, 0.8), "octa"), gm.grid(3, 2, rng, "smooth", "alt")):
        cases.append({"kind": "tria", "family": "nano", "v": (np.array(v, dtype=float) * 1e-9).tolist(), "t": t, "vdtype": "float64",
                      "d": 1e-10, "tseed": rng.randrange(1 << 30)})
    for k in range(10 if tier == "quick" else 100):
        v, t = gm.tet_family(["kuhn", "delaunay", "subset", "single"][k % 4], rng)
        if rng.random() < 0.3:
            v, t = gm.add_unused(v, t, rng)
        cases.append({"kind": "tet", "family": "tet", "v": v, "t": t, "vdtype": "float64"})
    return cases


def _measures(m):
    out = {}
    out["areas"] = m.tria_areas().tolist()
    out["area"] = float(m.area())
    out["vareas"] = m.vertex_areas().tolist()
    try:
        out["volume"] = float(m.volume())
    except Exception as e:
        out["volume"] = core.errkind(e)
    c, a = m.centroid()
    out["centroid"] = c.tolist()
    out["cen_area"] = float(a)
    out["tnormals"] = m.tria_normals().tolist()
    try:
        out["vnormals"] = m.vertex_normals().tolist()
    except Exception as e:
        out["vnormals"] = core.errkind(e)
    out["quals"] = m.tria_qualities().tolist()
    out["avg_edge"] = float(m.avg_edge_length())
    return out


def _far_shift(v64, case):
    import random
    r = random.Random(case.get("tseed", 0) + 17)
    d = np.array([r.gauss(0, 1) for _ in range(3)])
    return d / np.linalg.norm(d) * (np.abs(v64 - v64.mean(0)).max() + 1e-300) * 1e6


def run_impl(case):
    import random
    from lapy import Solver, TetMesh, TriaMesh
    out = {}
    v = np.array(case["v"], dtype=case["vdtype"])
    t = np.array(case["t"], dtype=int)
    try:
        if case["kind"] == "tet":
            out["avg_edge"] = float(TetMesh(v, t).avg_edge_length())
            v64 = np.array(case["v"], dtype=float)
            out["avg_edge_far"] = float(TetMesh(v64 + _far_shift(v64, case), t.copy()).avg_edge_length())
            return out
        m = TriaMesh(v.copy(), t.copy())
        out.update(_measures(m))
        try:
            out["mass_sum"] = float(Solver(m, lump=False).mass.sum()) if len(set(t.reshape(-1))) == len(v) else None
        except Exception as e:
            out["mass_sum"] = None
        m2 = TriaMesh(v.copy(), t.copy())
        m2.normalize_()
        out["normalized"] = np.asarray(m2.v, dtype=float).tolist()
        out["normalized_t_same"] = bool(np.array_equal(m2.t, t))
        m3 = TriaMesh(v.copy(), t.copy())
        try:
            m3.normal_offset_(case["d"])
            out["offset"] = np.asarray(m3.v, dtype=float).tolist()
            # second offset on the same object: must follow the normals of the *current* surface
            cur = TriaMesh(m3.v.copy(), m3.t.copy()).vertex_normals()
            before = np.asarray(m3.v, dtype=float).copy()
            m3.normal_offset_(case["d"])
            out["offset2_err"] = float(np.abs((np.asarray(m3.v, dtype=float) - before) - case["d"] * cur).max())
        except Exception as e:
            out["offset"] = core.errkind(e)
        # transformed copies (float64): rigid motion + relabelling, scaling, translation, global flip
        r = random.Random(case["tseed"])
        v64 = np.array(case["v"], dtype=float)
        vt, q, s, b = gm.similarity(v64.tolist(), r, reflect=False, scale=1.0)
        vr, tr, perm = gm.relabel(vt, case["t"], r)
        out["rigid"] = _measures(TriaMesh(np.array(vr), np.array(tr)))
        out["rigid_perm"] = perm
        sc = r.choice([0.37, 2.5, 11.0])
        out["scale"] = sc
        out["scaled"] = _measures(TriaMesh(v64 * sc, t.copy()))
        out["translated"] = _measures(TriaMesh(v64 + np.array([3.7, -120.0, 41.5]), t.copy()))
        out["flipped"] = _measures(TriaMesh(v64.copy(), t[:, [0, 2, 1]].copy()))
        # world coordinates: 1e6 diameters away from the origin
        out["far"] = _measures(TriaMesh(v64 + _far_shift(v64, case), t.copy()))
    except Exception as e:
        out["error"] = core.errkind(e)
        out["error_msg"] = str(e)[:300]
    return out


def _res(x, f):
    if isinstance(x, str):
        k = {"ValueError": "ValueError", "IndexError": "IndexError"}.get(x, "OtherError")
        return f"(Err {k})"
    return f"(Ok {f(x)})"


def coq_case(case, out):
    if "error" in out:
        return None
    tol = "0x1.a36e2eb1c432dp-14" if case["vdtype"] == "float32" else "0x1.12e0be826d695p-30"
    if case["kind"] == "tet":
        return "(TetG (%s, %s, %s, %s))" % (tol, core.cv3list(case["v"]), core.ctuples(case["t"]), core.cfloat(out["avg_edge"]))
    obs = "(mkC13 %s %s %s %s %s %s %s %s %s %s %s %s)" % (
        core.cflist(out["areas"]), core.cfloat(out["area"]), core.cflist(out["vareas"]), _res(out["volume"], core.cfloat),
        core.cv3(out["centroid"]), core.cfloat(out["cen_area"]), core.cv3list(out["tnormals"]),
        _res(out["vnormals"], core.cv3list), core.cflist(out["quals"]), core.cfloat(out["avg_edge"]),
        core.cv3list(out["normalized"]), _res(out["offset"], core.cv3list))
    return "(TriaG (%s, %s, %s, %s, %s))" % (tol, core.cfloat(case["d"]), core.cv3list(case["v"]), core.ctuples(case["t"]), obs)


def _topo(t):
    und, dirc = {}, {}
    for r in t:
        for a, b in ((r[0], r[1]), (r[1], r[2]), (r[2], r[0])):
            und[frozenset((a, b))] = und.get(frozenset((a, b)), 0) + 1
            dirc[(a, b)] = dirc.get((a, b), 0) + 1
    return all(c != 1 for c in und.values()), all(c == 1 for c in dirc.values()), und


def oracle(case, out):
    V = []
    def bad(clause, detail, wc=None):
        V.append({"clause": clause, "detail": detail, "witness_class": wc})
    if "error" in out:
        bad("measures_no_exception", out["error"] + ": " + out.get("error_msg", ""))
        return V
    p = np.array(case["v"], dtype=float)
    t = np.array(case["t"], dtype=int)
    f32 = case["vdtype"] == "float32"
    rt = 3e-4 if f32 else 1e-9
    if case["kind"] == "tet":
        es = set()
        for r in t:
            for i in range(4):
                for j in range(i + 1, 4):
                    es.add((min(r[i], r[j]), max(r[i], r[j])))
        ref = np.mean([np.linalg.norm(p[a] - p[b]) for a, b in es])
        if abs(out["avg_edge"] - ref) > rt * ref:
            bad("tet_avg_edge_length_is_mean_over_unique_edges", f"{out['avg_edge']} vs {ref}")
        if abs(out["avg_edge_far"] - ref) > max(rt, 1e-6) * ref:
            bad("tet_avg_edge_length_translation_invariant", f"{out['avg_edge_far']} vs {ref} after a shift by 1e6 diameters")
        return V
    P0, P1, P2 = p[t[:, 0]], p[t[:, 1]], p[t[:, 2]]
    cr = np.cross(P1 - P0, P2 - P0)
    L = np.linalg.norm(cr, axis=1)
    A = L / 2
    scale = A.max()
    # Heron's formula (the documented method) is ill-conditioned on needle triangles: its relative rounding
    # error is about eps * (longest edge)^4 / area^2; allow exactly that much, nothing more
    emax2 = np.maximum(np.maximum(((P1 - P0) ** 2).sum(1), ((P2 - P1) ** 2).sum(1)), ((P0 - P2) ** 2).sum(1))
    epsm = 6e-8 if f32 else 2.3e-16
    heron_rel = rt + 4 * epsm * emax2 ** 2 / np.maximum(A, 1e-300) ** 2
    if (np.abs(np.array(out["areas"]) - A) > heron_rel * A + 1e-300).any():
        bad("tria_areas_equal_half_cross_norm", f"max diff {np.abs(np.array(out['areas']) - A).max()}")
    tot = A.sum()
    heron_tot = float((heron_rel * A).sum())
    if abs(out["area"] - tot) > heron_tot + rt * tot:
        bad("area_is_sum_of_tria_areas", f"{out['area']} vs {tot}")
    va = np.zeros(t.max() + 1)
    np.add.at(va, t.reshape(-1), np.repeat(A / 3, 3))
    if len(out["vareas"]) != len(va) or np.abs(np.array(out["vareas"]) - va).max() > rt * va.max():
        bad("vertex_areas_are_third_of_one_ring", "differs")
    if abs(sum(out["vareas"]) - tot) > rt * tot * 10:
        bad("vertex_areas_sum_to_area", f"{sum(out['vareas'])} vs {tot}")
    if out.get("mass_sum") is not None and abs(out["mass_sum"] - tot) > max(rt, 1e-9) * tot * 10:
        bad("mass_entries_sum_to_area", f"{out['mass_sum']} vs {tot}")
    closed, oriented, und = _topo(case["t"])
    vol = float(np.sum(np.einsum("ij,ij->i", P0, np.cross(P1, P2))) / 6)
    vs = (np.abs(p).max() + 1e-300) ** 3
    if not closed:
        if out["volume"] != 0.0:
            bad("volume_zero_for_open", f"{out['volume']}")
    elif not oriented:
        if out["volume"] != "ValueError":
            bad("volume_rejects_closed_unoriented", f"{out['volume']}")
    else:
        if isinstance(out["volume"], str) or abs(out["volume"] - vol) > max(rt, 1e-9) * (abs(vol) + vs * 1e-3):
            bad("volume_is_divergence_theorem_volume", f"{out['volume']} vs {vol}")
        tv = out["translated"]["volume"]
        if isinstance(tv, str) or abs(tv - vol) > 1e-7 * (abs(vol) + 1e-3 * vs) + 1e-9 * 120.0 ** 3 * 1e-3:
            bad("volume_translation_invariant", f"{tv} vs {vol}")
        fv = out["flipped"]["volume"]
        if isinstance(fv, str) or abs(fv + vol) > max(rt, 1e-9) * (abs(vol) + vs * 1e-3):
            bad("volume_sign_flips_with_orientation", f"{fv} vs {-vol}")
    cen = (A[:, None] * (P0 + P1 + P2) / 3).sum(0) / tot
    if np.abs(np.array(out["centroid"]) - cen).max() > max(rt, 1e-8) * (np.abs(p).max() + 1e-300):
        bad("centroid_is_area_weighted_mean_of_centres", f"{out['centroid']} vs {cen.tolist()}")
    N = np.array(out["tnormals"])
    good = L > 1e-12 * (np.abs(p).max() ** 2 + 1e-300)
    if good.any():
        if np.abs(np.linalg.norm(N[good], axis=1) - 1).max() > max(rt, 1e-9):
            bad("tria_normals_unit", "not unit")
        e1 = (P1 - P0)[good] / np.linalg.norm((P1 - P0)[good], axis=1)[:, None]
        e2 = (P2 - P0)[good] / np.linalg.norm((P2 - P0)[good], axis=1)[:, None]
        if max(np.abs(np.einsum("ij,ij->i", N[good], e1)).max(), np.abs(np.einsum("ij,ij->i", N[good], e2)).max()) > max(rt, 1e-7):
            bad("tria_normals_orthogonal_to_triangle", "not orthogonal")
        if (np.einsum("ij,ij->i", N[good], cr[good]) <= 0).any():
            bad("tria_normals_follow_winding", "normal against cross(v1-v0, v2-v0)")
    if oriented:
        if isinstance(out["vnormals"], str):
            bad("vertex_normals_no_exception", out["vnormals"])
        else:
            VN = np.array(out["vnormals"])
            S = np.zeros_like(p)
            for k in range(3):
                np.add.at(S, t[:, k], cr)
            nz = np.linalg.norm(S, axis=1) > 1e-9 * (np.abs(p).max() ** 2 + 1e-300)
            if nz.any() and np.abs(np.linalg.norm(VN[nz], axis=1) - 1).max() > max(rt, 1e-9):
                bad("vertex_normals_unit", "not unit")
            if nz.any() and np.abs(VN[nz] - S[nz] / np.linalg.norm(S[nz], axis=1)[:, None]).max() > max(rt, 1e-7):
                bad("vertex_normals_direction", "differs from normalised sum of incident cross products")
    elif out["vnormals"] != "ValueError":
        bad("vertex_normals_rejects_unoriented", str(out["vnormals"])[:50])
    es = ((P1 - P0) ** 2).sum(1) + ((P2 - P1) ** 2).sum(1) + ((P0 - P2) ** 2).sum(1)
    q = 2 * math.sqrt(3) * L / es
    Q = np.array(out["quals"])
    if np.abs(Q - q).max() > max(rt, 1e-9) or (np.abs(Q / q - 1)[q > 1e-300].max() > (1e-3 if f32 else 1e-6)):
        bad("qualities_equal_independent_formula", f"max rel diff {np.abs(Q / q - 1).max()}")
    if (Q <= 0).any() or (Q > 1 + (1e-6 if f32 else 1e-12)).any():
        bad("qualities_in_unit_interval", f"min {Q.min()} max {Q.max()}")
    if case["family"] == "equilateral" and np.abs(Q - 1).max() > (1e-6 if f32 else 1e-12):
        bad("quality_one_for_equilateral", f"{Q.tolist()}")
    ue = [np.linalg.norm(p[list(e)[0]] - p[list(e)[1]]) for e in und]
    if abs(out["avg_edge"] - np.mean(ue)) > rt * np.mean(ue):
        bad("avg_edge_length_is_mean_over_unique_edges", f"{out['avg_edge']} vs {np.mean(ue)}")
    # invariances / scaling
    rel = lambda a, b: abs(a - b) <= 1e-7 * (abs(a) + abs(b)) + 1e-300
    hr = 4 * heron_tot / tot
    rela = lambda a, b: abs(a - b) <= (1e-7 + hr) * (abs(a) + abs(b)) + 1e-300
    R, Sx, Tx = out["rigid"], out["scaled"], out["translated"]
    if not (rela(R["area"], out["area"]) and rel(R["avg_edge"], out["avg_edge"])
            and np.allclose(sorted(R["quals"]), sorted(out["quals"]), rtol=1e-6, atol=1e-9)) and not f32:
        bad("invariant_under_rigid_motion_and_relabelling", "area / avg edge / qualities changed")
    if not f32:
        s = out["scale"]
        if not (rela(Sx["area"], s * s * out["area"]) and rel(Sx["avg_edge"], s * out["avg_edge"])
                and np.allclose(Sx["quals"], out["quals"], rtol=1e-6, atol=1e-9)):
            bad("scale_with_proper_power", "area~s^2, avg edge~s, quality~s^0 violated")
        if closed and oriented and not isinstance(Sx["volume"], str) and not rel(Sx["volume"], s ** 3 * out["volume"]) and abs(vol) > 1e-6 * vs:
            bad("volume_scales_with_cube", f"{Sx['volume']} vs {s ** 3 * out['volume']}")
        Fx = out["far"]
        if abs(Fx["avg_edge"] - out["avg_edge"]) > 1e-6 * out["avg_edge"]:
            bad("avg_edge_length_translation_invariant", f"{Fx['avg_edge']} vs {out['avg_edge']} after a shift by 1e6 diameters")
        if closed and oriented and not isinstance(Fx["volume"], str) and abs(Fx["volume"] - out["volume"]) > 1e-6 * vs:
            bad("volume_translation_invariant", f"{Fx['volume']} vs {out['volume']} after a shift by 1e6 diameters")
        tr_scale = (np.abs(p).max() + 120.0) ** 2   # Heron on translated coordinates: edges from large numbers
        if not (abs(Tx["area"] - out["area"]) <= (1e-7 + hr) * out["area"] + 1e-12 * tr_scale):
            bad("area_translation_invariant", "changed")
    # normalize_
    Vn = np.array(out["normalized"])
    if not out["normalized_t_same"]:
        bad("normalize_keeps_connectivity", "t changed")
    An = np.linalg.norm(np.cross(Vn[t[:, 1]] - Vn[t[:, 0]], Vn[t[:, 2]] - Vn[t[:, 0]]), axis=1) / 2
    tn = 1e-3 if f32 else 1e-6
    if abs(An.sum() - 1) > tn:
        bad("normalize_unit_area", f"{An.sum()}")
    cn = (An[:, None] * (Vn[t[:, 0]] + Vn[t[:, 1]] + Vn[t[:, 2]]) / 3).sum(0) / An.sum()
    if np.abs(cn).max() > tn * 10 * (1 + np.abs(p).max() / math.sqrt(tot)):
        bad("normalize_centroid_at_origin", f"{cn.tolist()}")
    s_ = 1 / math.sqrt(tot)
    if np.abs((Vn - Vn[t[0, 0]]) - s_ * (p - p[t[0, 0]])).max() > tn * (1 + np.abs(Vn).max()) * 10:
        bad("normalize_is_translation_and_uniform_scaling", "not a similarity")
    # normal_offset_
    if oriented:
        if isinstance(out["offset"], str):
            bad("normal_offset_no_exception", out["offset"])
        elif not isinstance(out["vnormals"], str):
            mv = np.array(out["offset"]) - p
            exp = case["d"] * np.array(out["vnormals"])
            if np.abs(mv - exp).max() > (1e-4 if f32 else 1e-9) * (1 + np.abs(p).max()):
                bad("normal_offset_moves_by_d_along_vertex_normal", f"max diff {np.abs(mv - exp).max()}")
            if out.get("offset2_err", 0) > (1e-4 if f32 else 1e-9) * (1 + np.abs(p).max()):
                bad("second_normal_offset_follows_current_normals", f"err {out['offset2_err']}", "history")
    return V


def nontrivial(case, out):
    if "error" in out or case["kind"] == "tet":
        return case["kind"] == "tet" and "error" not in out
    Q = np.array(out["quals"])
    return bool(((np.abs(Q - 1) > 1e-6) & (np.abs(Q - math.sqrt(3) / 2) > 1e-6)).any())
