"""C06  Gradient and divergence are exact on linear data and mutually adjoint."""
import numpy as np

from .. import core, femcommon as fc, gen_mesh as gm

ID = "C06"
LIMIT = 30.0
RULE = ("triangle meshes (flat and curved, oriented or not, flips/rotations/relabelling, scales 1e-5..1e3, float32) and tet meshes "
        "(oriented by orient_, unoriented, mixed) plus strips of flat cap triangles (height 1e-4 / 1e-5 of the base) x vertex functions (random, affine; dtypes float64/float32/int64/uint8) x element "
        "vector fields (random, tangential). distinct = hash of the case; non-trivial = >= 2 elements and non-constant f")
TRUSTED = ["scipy csc_matrix((dat,(i,j))).todense() as scatter-add of length max index + 1 (modelled)"]
ASSUMPTIONS = ["integer vertex functions are passed to the model as their float values"]
EXHAUSTIVE = {"quick": False, "thorough": False}
SHARD_BYTES = 120_000

COQ_HEADER = """From Coq Require Import List PrimFloat String.
From LaPyV Require Import Base.Scalar Base.Vec3 Base.ListAux Base.Sparse Model.TetMesh Model.TriaAdj Model.Fem Model.TriaGeom Model.DiffGeo Chk.Cmp Chk.C06.
Import ListNotations. Open Scope float_scope."""
COQ_CHECK = "check_c06"
COQ_LABELS = ["gradient", "divergence", "divergence2"]


def generate(rng, tier):
    nt, nq = (70, 40) if tier == "quick" else (600, 300)
    cases = fc.fem_mesh_cases(rng, tier, nt, nq)
    # strips of flat "cap" triangles (base w, height h << w): valid elements whose area must not come from a side-length formula
    for _ in range(4 if tier == "quick" else 30):
        N = rng.randint(2, 6)
        h, w = rng.choice([1e-4, 1e-5]), rng.choice([0.3, 1.0])
        v = [[w * k, 0.0, 0.0] for k in range(N + 1)] + [[w * (k + 0.5), h, 0.0] for k in range(N)]
        t = []
        for k in range(N):
            t.append([k, k + 1, N + 1 + k])
            if k + 1 < N:
                t.append([N + 1 + k, k + 1, N + 2 + k])
        if rng.random() < 0.5:
            v, _, _, _ = gm.similarity(v, rng, scale=1.0)
        cases.append({"kind": "tria", "family": "cap_strip", "v": v, "t": t, "lump": False, "vdtype": "float64", "tdtype": "int64"})
    # a surface patch in nanometre units (coordinates ~1e-9, areas ~1e-18: far below the machine epsilon, finding F26)
    for k in range(2):
        v, t = gm.grid(3, 2, rng, "smooth", "alt")
        v = (np.array(v, dtype=float) * 1e-9).tolist()
        cases.append({"kind": "tria", "family": "nano_tria", "v": v, "t": t, "lump": False, "vdtype": "float64", "tdtype": "int64"})
    out = []
    for c in cases:
        n, T = len(c["v"]), len(c["t"])
        p = np.array(c["v"])
        sc = np.abs(p).max() + 1e-300
        kind = rng.choice(["rand", "rand", "affine", "affine"]) if c["family"] not in ("cap_strip", "nano_tria") else "affine"
        a = [rng.uniform(-2, 2) for _ in range(3)]
        if kind == "affine":
            f = (p @ np.array(a) / sc + 0.7).tolist()
        else:
            f = [rng.uniform(-1, 1) for _ in range(n)]
        fd = rng.choice(["float64", "float64", "float32", "int64", "uint8"]) if c["family"] not in ("cap_strip", "nano_tria") else "float64"
        if fd == "int64":
            f = [float(round(20 * x)) for x in f]
        elif fd == "uint8":
            f = [float(int(abs(60 * x)) % 256) for x in f]
        elif fd == "float32":
            f = [float(np.float32(x)) for x in f]
        if c["vdtype"] == "float32" and c["kind"] == "tet" and rng.random() < 0.7:
            # single-precision vertices, double-precision function with a large constant part: the tetra gradient is built from
            # differences of f, so only those matter (the triangle formula sum f_i e_i is, in single-precision geometry,
            # sensitive to the constant part at the level eps32 * max|f| / h -- conditioning, not claimed here)
            kind, fd = "affine_offset", "float64"
            f = (p @ np.array(a) / sc + rng.choice([1e4, -3e5])).tolist()
        X = [[rng.uniform(-1, 1) for _ in range(3)] for _ in range(T)]
        c.update({"f": f, "fdtype": fd, "fkind": kind, "a": [x / sc for x in a], "X": X, "tangential": rng.random() < 0.4})
        if c["kind"] == "tet" and rng.random() < 0.4:
            c["t"] = gm.orient_tets(c["v"], c["t"])      # the library's own orientation convention
            c["family"] += "_oriented"
        out.append(c)
    return out


def _tangential(case):
    X = np.array(case["X"], dtype=float)
    if case["kind"] == "tria" and case["tangential"]:
        p = np.array(case["v"], dtype=float)
        t = np.array(case["t"], dtype=int)
        n = np.cross(p[t[:, 1]] - p[t[:, 0]], p[t[:, 2]] - p[t[:, 0]])
        n = n / np.linalg.norm(n, axis=1)[:, None]
        X = X - n * (X * n).sum(1)[:, None]
    return X


def run_impl(case):
    from lapy import Solver, diffgeo
    out = {}
    try:
        m = fc.build_mesh(case)
        f = np.array(case["f"], dtype=case["fdtype"])
        X = _tangential(case).astype(np.array(case["v"], dtype=case["vdtype"]).dtype)
        out["X"] = X.astype(float).tolist()
        g = diffgeo.compute_gradient(m, f)
        out["g"] = np.asarray(g, dtype=float).tolist()
        out["d"] = np.asarray(diffgeo.compute_divergence(m, X), dtype=float).tolist()
        if case["kind"] == "tria":
            out["g_direct"] = bool(np.array_equal(np.asarray(diffgeo.tria_compute_gradient(m, f)), np.asarray(g)))
            out["d2"] = np.asarray(diffgeo.tria_compute_divergence2(m, X), dtype=float).tolist()
        else:
            out["g_direct"] = bool(np.array_equal(np.asarray(diffgeo.tet_compute_gradient(m, f)), np.asarray(g)))
        gf = diffgeo.compute_gradient(m, f.astype(float))
        out["divgrad"] = np.asarray(diffgeo.compute_divergence(m, gf), dtype=float).tolist()
        out["Af"] = np.asarray(Solver(m).stiffness @ f.astype(float), dtype=float).tolist()
        class Other:
            pass
        for nm, fn in (("grad_other", lambda: diffgeo.compute_gradient(Other(), f)), ("div_other", lambda: diffgeo.compute_divergence(Other(), X))):
            try:
                fn()
                out[nm] = "accepted"
            except Exception as e:
                out[nm] = core.errkind(e)
    except Exception as e:
        out["error"] = core.errkind(e)
        out["error_msg"] = str(e)[:300]
    return out


def coq_case(case, out):
    if "error" in out:
        return None
    f32 = case["vdtype"] == "float32" or case["fdtype"] == "float32"
    tol = "0x1.a36e2eb1c432dp-13" if f32 else "0x1.12e0be826d695p-30"
    if case["fkind"] == "affine_offset":
        tol = "0x1.a36e2eb1c432dp-14"
    if case["kind"] == "tria":
        return "(TriaD %s %s %s %s %s %s %s %s)" % (tol, core.cv3list(case["v"]), core.ctuples(case["t"]), core.cflist(case["f"]),
                                                   core.cv3list(out["X"]), core.cv3list(out["g"]), core.cflist(out["d"]), core.cflist(out["d2"]))
    return "(TetD %s %s %s %s %s %s %s)" % (tol, core.cv3list(case["v"]), core.ctuples(case["t"]), core.cflist(case["f"]),
                                           core.cv3list(out["X"]), core.cv3list(out["g"]), core.cflist(out["d"]))


def oracle(case, out):
    V = []
    def bad(clause, detail, wc=None):
        V.append({"clause": clause, "detail": detail, "witness_class": wc})
    if "error" in out:
        bad("gradient_divergence_no_exception", out["error"] + ": " + out.get("error_msg", ""), out["error"])
        return V
    f32 = case["vdtype"] == "float32" or case["fdtype"] == "float32"
    rt = 2e-3 if f32 else 1e-8
    if case["fkind"] == "affine_offset":
        rt = 1e-4
    p = np.array(case["v"], dtype=float)
    t = np.array(case["t"], dtype=int)
    f = np.array(case["f"], dtype=float)
    X = np.array(out["X"], dtype=float)
    G, meas = fc.elem_grad_and_measure(case["v"], case["t"])
    gref = np.einsum("eck,ek->ec", G, f[t])
    g = np.array(out["g"])
    gs = np.abs(gref).max() + 1e-300
    k = t.shape[1]
    pre = "tria_" if k == 3 else "tet_"
    if np.abs(g - gref).max() > rt * gs:
        bad(pre + "gradient_is_gradient_of_interpolant", f"max diff {np.abs(g - gref).max()} (scale {gs})",
            "oriented" if case["family"].endswith("_oriented") else None)
    if case["fkind"] == "affine_offset":
        return V            # the pairing clauses below sum products with |f| ~ 1e4: nothing to learn from them at this magnitude
    if case["fkind"] == "affine" and case["fdtype"] in ("float64",) and not f32:
        a = np.array(case["a"])
        if k == 4:
            if np.abs(g - a).max() > 1e-7 * (np.abs(a).max() + 1e-300):
                bad("tet_gradient_exact_on_affine", f"max diff {np.abs(g - a).max()}")
        else:
            n = np.cross(p[t[:, 1]] - p[t[:, 0]], p[t[:, 2]] - p[t[:, 0]])
            n = n / np.linalg.norm(n, axis=1)[:, None]
            proj = a[None, :] - n * (n @ a)[:, None]
            if np.abs(g - proj).max() > 1e-7 * (np.abs(a).max() + 1e-300):
                bad("tria_gradient_is_projection_on_affine", f"max diff {np.abs(g - proj).max()}")
    if k == 3:
        n = np.cross(p[t[:, 1]] - p[t[:, 0]], p[t[:, 2]] - p[t[:, 0]])
        n = n / np.linalg.norm(n, axis=1)[:, None]
        if np.abs((g * n).sum(1)).max() > rt * gs:
            bad("tria_gradient_tangent", f"{np.abs((g * n).sum(1)).max()}")
    if not out["g_direct"]:
        bad("dispatch_to_matching_routine", "generic and specific gradient differ")
    if k == 3:
        # the cotangent divergence is ill-conditioned on flat "cap" triangles: cot ~ (edge / height), products of two of them
        e2 = max(float(((p[t[:, i]] - p[t[:, (i + 1) % 3]]) ** 2).sum(1).max()) for i in range(3))
        cond = e2 / float((2 * meas).min() + 1e-300)
        rt = max(rt, 4e-16 * cond * cond)
    d = np.array(out["d"])
    nfull = len(p)
    dd = np.zeros(nfull)
    dd[: len(d)] = d
    pair = float(f @ dd)
    ref = -float((meas * (X * gref).sum(1)).sum())
    sc = float((meas * np.linalg.norm(X, axis=1) * np.linalg.norm(gref, axis=1)).sum()) + 1e-300
    if abs(pair - ref) > rt * sc:
        bad(pre + "divergence_is_negative_adjoint", f"sum f div(X) = {pair} vs -sum meas X.grad f = {ref}")
    dsc = float((meas[:, None] * np.abs(G).sum(2) * np.abs(X)).sum()) + 1e-300
    if abs(d.sum()) > rt * dsc:
        bad(pre + "divergence_sums_to_zero", f"{d.sum()}")
    dg = np.zeros(nfull)
    dg[: len(out["divgrad"])] = out["divgrad"]
    Af = np.array(out["Af"])
    if len(Af) == nfull and np.abs(dg + Af).max() > max(5e-3 if f32 else 1e-7, 10 * rt if k == 3 else 0.0) * (np.abs(Af).max() + 1e-300):
        bad(pre + "div_grad_is_minus_A", f"max |div(grad f) + A f| = {np.abs(dg + Af).max()}")
    if k == 3 and case["tangential"]:
        d2 = np.array(out["d2"])
        if np.abs(d - d2).max() > rt * (np.abs(d).max() + dsc * 1e-3):
            bad("tria_divergence_variants_agree_on_tangential", f"max diff {np.abs(d - d2).max()}")
    for nm in ("grad_other", "div_other"):
        if out.get(nm) != "ValueError":
            bad("generic_entry_rejects_other_objects", f"{nm}: {out.get(nm)}")
    return V


def nontrivial(case, out):
    return "error" not in out and len(case["t"]) >= 2 and len(set(case["f"])) > 1
