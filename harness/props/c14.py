"""C14  What LaPy writes, LaPy reads back: meshes, spectra and vertex functions."""
import os
import shutil
import tempfile

import numpy as np

from .. import core, gen_mesh as gm

ID = "C14"
LIMIT = 60.0
RULE = ("triangle and tet meshes (small, incl. unused vertices; coordinates random / large / tiny / negative-zero / integer-valued; "
        "float32, float64; int32, int64) written by LaPy (VTK tria, VTK tet, FreeSurfer with and without header dictionaries) and read "
        "back; files produced by independent format printers (OFF with comments, VTK POLYGONS / CELLS / TRIANGLE_STRIPS with float or "
        "double points, one or several strips, Gmsh 2.2 ASCII tetrahedra with 2-3 tags); EVERY line-prefix truncation of every such file (strips files: those with several strips); wrong-kind files; "
        "ev dictionaries with random field subsets, eigenvalue counts 1..6, eigenvector shapes (n,k) incl. k=1 and n=1, float32/64; "
        "vertex functions. distinct = hash of the case; non-trivial = mesh with >= 4 elements or ev file with eigenvectors")
TRUSTED = ["Python str()/repr of floats and C strtod (np.fromfile text mode) round-trip binary64/binary32 values; nibabel write_geometry"]
ASSUMPTIONS = ["token-level model: files are compared as lists of whitespace-separated tokens per line"]
EXHAUSTIVE = {"quick": True, "thorough": True}
SHARD_BYTES = 100_000

COQ_HEADER = """From Coq Require Import List ZArith PrimFloat String.
From LaPyV Require Import Base.Scalar Base.Vec3 Base.ListAux Model.TetMesh Model.TriaAdj Model.IOText Model.IOFs Chk.Cmp Chk.C09 Chk.C14.
Import ListNotations. Open Scope float_scope."""
COQ_CHECK = "check_c14_multi"
COQ_LABELS = ["writer_tokens", "reader_result"]


def _coords(rng, n, mode):
    out = []
    for _ in range(n):
        if mode == "int":
            p = [float(rng.randint(-5, 5)) for _ in range(3)]
        elif mode == "large":
            p = [rng.uniform(-1, 1) * 1e6 for _ in range(3)]
        elif mode == "tiny":
            p = [rng.uniform(-1, 1) * 1e-7 for _ in range(3)]
        else:
            p = [rng.uniform(-3, 3) for _ in range(3)]
        out.append(p)
    if mode == "negzero" and out:
        out[0] = [-0.0, 0.0, 1.5]
    return out


def generate(rng, tier):
    cases = []
    nm = 14 if tier == "quick" else 120
    for k in range(nm):
        fam = ["grid", "fan", "tetra", "octa", "delaunay", "book"][k % 6]
        v, t = gm.tria_family(fam, rng, small=True)
        if len(t) < 3:
            continue
        if len(t) > 14:
            t = t[:14]
        mode = rng.choice(["rand", "rand", "int", "large", "tiny", "negzero"])
        v = _coords(rng, len(v), mode)
        if rng.random() < 0.3:
            v, t = gm.add_unused(v, t, rng)
        hdr = None
        if rng.random() < 0.6:
            hdr = {"head": rng.choice([[2, 0, 20], [2, 0, 20], [20]]), "valid": "1  # volume info valid", "filename": "../mri/filled-pretess255.mgz",
                   "volume": [256, 256, 256], "voxelsize": [1.0, 1.0, 1.0], "xras": [-1.0, 0.0, 0.0], "yras": [0.0, 0.0, -1.0],
                   "zras": [0.0, 1.0, 0.0], "cras": [rng.uniform(-5, 5), rng.uniform(-20, 20), 3.5]}
        cases.append({"ctype": "tria", "family": "tria_" + fam + "_" + mode, "v": v, "t": t,
                      "vdtype": rng.choice(["float32", "float64"]), "tdtype": rng.choice(["int32", "int64"]), "fsinfo": hdr,
                      "strip_n": rng.randint(3, 7), "points_kw": rng.choice(["float", "double"]), "cells_kw": rng.choice(["POLYGONS", "CELLS"])})
    for k in range(8 if tier == "quick" else 60):
        v, t = gm.tet_family(["single", "kuhn", "subset", "delaunay"][k % 4], rng)
        if len(t) > 10:
            t = t[:10]
        v = _coords(rng, len(v), rng.choice(["rand", "int", "large"]))
        cases.append({"ctype": "tet", "family": "tet", "v": v, "t": t, "vdtype": rng.choice(["float32", "float64"]),
                      "tdtype": rng.choice(["int32", "int64"]), "ntags": rng.choice([2, 3])})
    for k in range(24 if tier == "quick" else 200):
        n = rng.choice([1, 2, 3, 5])
        kk = rng.choice([1, 1, 2, 3, 6])
        d = {"Eigenvalues": [rng.uniform(0, 50) * rng.choice([1, 1e-9, 1e7]) for _ in range(rng.choice([1, kk, kk + 2]))]}
        if rng.random() < 0.8:
            d["Eigenvectors"] = [[rng.gauss(0, 1) for _ in range(kk)] for _ in range(n)]
        strs = rng.choice([("shapeDNA-tria", "surf/lh.white", "somebody"),
                           ("LaPy 1.0: python", "C:\\data\\subj 01\\lh.white", "user@host:/home/u"),      # colons, spaces, backslashes
                           ("tool (v2) 12:30:05", "http://example.org/a:b/mesh.vtk", "a:b:c")])
        for key, val in (("Creator", strs[0]), ("File", strs[1]), ("User", strs[2]), ("Refine", 0), ("Degree", 1),
                         ("Dimension", 2), ("Elements", 320), ("DoF", 162), ("NumEW", kk), ("Area", 12.566), ("Volume", 4.18),
                         ("BLength", 0.0), ("EulerChar", 2), ("TimePre", 1), ("TimeCalcAB", 2), ("TimeCalcEW", 30)):
            if rng.random() < 0.6:
                d[key] = val
        cases.append({"ctype": "ev", "family": "ev_k%d_n%d" % (kk, n), "d": d, "dtype": rng.choice(["float64", "float32"])})
    for k in range(8 if tier == "quick" else 60):
        n = rng.choice([1, 2, 7])
        cases.append({"ctype": "vfunc", "family": "vfunc", "f": [rng.gauss(0, 3) * rng.choice([1, 1e-12, 1e9]) for _ in range(n)],
                      "dtype": rng.choice(["float64", "float32"])})
    return cases


# ---------------------------------------------------------------- independent format printers
def fmt(x):
    return repr(float(x))


def print_off(v, t, comments=True):
    lines = []
    if comments:
        lines.append("# produced by an independent OFF printer")
    lines += ["OFF", f"{len(v)} {len(t)} 0"]
    lines += [" ".join(fmt(c) for c in p) for p in v]
    lines += ["3 " + " ".join(str(i) for i in r) for r in t]
    return "\n".join(lines) + "\n"


def print_vtk_tria(v, t, points_kw="float", cells_kw="POLYGONS"):
    ds = "POLYDATA" if cells_kw == "POLYGONS" else "UNSTRUCTURED_GRID"
    lines = ["# vtk DataFile Version 3.0", "independent printer", "ASCII", f"DATASET {ds}", f"POINTS {len(v)} {points_kw}"]
    lines += [" ".join(fmt(c) for c in p) for p in v]
    lines.append(f"{cells_kw} {len(t)} {4 * len(t)}")
    lines += ["3 " + " ".join(str(i) for i in r) for r in t]
    return "\n".join(lines) + "\n"


def strips_of(n):
    """one strip over vertices 0..n-1 and the triangles it denotes"""
    tris = []
    for i in range(2, n):
        tris.append([i - 2, i - 1, i] if i % 2 == 0 else [i - 1, i - 2, i])
    return tris


def print_vtk_strips(v, strips):
    lines = ["# vtk DataFile Version 3.0", "independent printer", "ASCII", "DATASET POLYDATA", f"POINTS {len(v)} float"]
    lines += [" ".join(fmt(c) for c in p) for p in v]
    lines.append(f"TRIANGLE_STRIPS {len(strips)} {sum(len(s) + 1 for s in strips)}")
    lines += [f"{len(s)} " + " ".join(str(i) for i in s) for s in strips]
    return "\n".join(lines) + "\n"


def print_gmsh(v, t, ntags=2):
    lines = ["$MeshFormat", "2.2 0 8", "$EndMeshFormat", "$Nodes", str(len(v))]
    lines += [f"{i + 1} " + " ".join(fmt(c) for c in p) for i, p in enumerate(v)]
    lines += ["$EndNodes", "$Elements", str(len(t))]
    tags = " ".join(["1"] * ntags)
    lines += [f"{i + 1} 4 {ntags} {tags} " + " ".join(str(j + 1) for j in r) for i, r in enumerate(t)]
    lines += ["$EndElements"]
    return "\n".join(lines) + "\n"


def _same_mesh(m, v32, t):
    if m is None:
        return "none"
    vv, tt = np.asarray(m.v), np.asarray(m.t)
    if tt.shape != np.asarray(t).shape or not np.array_equal(tt, np.asarray(t)):
        return "connectivity differs"
    if vv.shape != v32.shape or not np.array_equal(vv.astype(np.float32), v32):
        return "coordinates differ from float32(original)"
    return "ok"


def _try(fn):
    try:
        return fn(), None
    except core.CaseTimeout:
        raise
    except BaseException as e:       # exit() inside library code raises SystemExit
        return None, type(e).__name__


def _truncations(text, reader, v32, t, first_data_line, last_data_line):
    """every proper line-prefix that cuts inside the vertex or element section must not yield a (different) mesh"""
    lines = text.splitlines(keepends=True)
    bad = []
    d = tempfile.mkdtemp(prefix="c14t_")
    try:
        for k in range(first_data_line + 1, last_data_line):
            fn = os.path.join(d, "trunc" + reader[1])
            open(fn, "w").write("".join(lines[:k]))
            m, err = _try(lambda: reader[0](fn))
            if m is not None:
                bad.append([k, _same_mesh(m, v32, t), int(np.asarray(m.t).shape[0])])
    finally:
        shutil.rmtree(d, ignore_errors=True)
    return bad



# ---------------------------------------------------------------- FreeSurfer surface files as field streams (independent of lapy)
FS_KEYS = ["valid", "filename", "volume", "voxelsize", "xras", "yras", "zras", "cras"]


def fs_fields(raw):
    """Split the bytes of a FreeSurfer triangle file into fields following the format definition; a field cut short by a
    truncation is dropped together with everything behind it."""
    import struct
    out = []
    if len(raw) < 3:
        return out
    out.append(("magic", raw[0], raw[1], raw[2]))
    pos = 3
    nl = raw.find(b"\n", pos)
    if nl < 0:
        return out
    out.append(("line", raw[pos:nl].decode("utf-8", "replace")))
    pos = nl + 1
    if raw[pos:pos + 1] == b"\n":
        out.append(("line", ""))
        pos += 1
    cnt = []
    for _ in range(2):
        if pos + 4 > len(raw):
            return out
        z = struct.unpack(">i", raw[pos:pos + 4])[0]
        out.append(("i32", z))
        cnt.append(z)
        pos += 4
    for _ in range(3 * max(cnt[0], 0)):
        if pos + 4 > len(raw):
            return out
        out.append(("f32", struct.unpack(">f", raw[pos:pos + 4])[0]))
        pos += 4
    for _ in range(3 * max(cnt[1], 0)):
        if pos + 4 > len(raw):
            return out
        out.append(("i32", struct.unpack(">i", raw[pos:pos + 4])[0]))
        pos += 4
    # footer: 1 or 3 int32, then "key = value" lines
    if pos + 4 > len(raw):
        return out
    h = struct.unpack(">i", raw[pos:pos + 4])[0]
    out.append(("i32", h))
    pos += 4
    if h != 20:
        for _ in range(2):
            if pos + 4 > len(raw):
                return out
            out.append(("i32", struct.unpack(">i", raw[pos:pos + 4])[0]))
            pos += 4
    while pos < len(raw):
        nl = raw.find(b"\n", pos)
        if nl < 0:
            break
        line = raw[pos:nl].decode("utf-8", "replace")
        pos = nl + 1
        if "=" not in line:
            out.append(("line", line))
            continue
        key, val = line.split("=", 1)
        key = key.strip()
        if key in ("valid", "filename"):
            out.append(("key", key, ("str", val.strip())))
        elif key == "volume":
            out.append(("key", key, ("ints", [int(x) for x in val.split()])))
        else:
            out.append(("key", key, ("floats", [float(x) for x in val.split()])))
    return out


def _cfield(f):
    if f[0] == "magic":
        return "(FMagic %d%%nat %d%%nat %d%%nat)" % (f[1], f[2], f[3])
    if f[0] == "line":
        return "(FLine %s)" % core.cstring(f[1])
    if f[0] == "i32":
        return "(FI32 %s)" % core.cz(f[1])
    if f[0] == "f32":
        return "(FF32 %s)" % core.cfloat(f[1])
    k, pl = f[1], f[2]
    if pl[0] == "str":
        return "(FKey %s (PStr %s))" % (core.cstring(k), core.cstring(pl[1]))
    if pl[0] == "ints":
        return "(FKey %s (PInts %s))" % (core.cstring(k), core.czlist(pl[1]))
    return "(FKey %s (PFloats %s))" % (core.cstring(k), core.cflist(pl[1]))


def _cfields(fs):
    return "[" + "; ".join(_cfield(f) for f in fs) + "]"


def _cinfo(d):
    """header dictionary -> Coq record; None for None / empty"""
    if not d:
        return "None"
    g = lambda k: [float(x) for x in np.asarray(d[k], dtype=float).ravel()]
    return ("(Some {| fs_head := %s; fs_valid := %s; fs_filename := %s; fs_volume := %s; fs_voxelsize := %s; fs_xras := %s; "
            "fs_yras := %s; fs_zras := %s; fs_cras := %s |})") % (
        core.czlist([int(x) for x in np.asarray(d["head"]).ravel()]), core.cstring(str(d["valid"])), core.cstring(str(d["filename"])),
        core.czlist([int(x) for x in np.asarray(d["volume"]).ravel()]), core.cflist(g("voxelsize")), core.cflist(g("xras")),
        core.cflist(g("yras")), core.cflist(g("zras")), core.cflist(g("cras")))


def _fmt10(d):
    """the header as nibabel formats it: floats with %.10g"""
    if d is None:
        return None
    o = dict(d)
    for k in ("voxelsize", "xras", "yras", "zras", "cras"):
        o[k] = [float("%.10g" % float(x)) for x in d[k]]
    return o


def _fsobs(r):
    if r is None:
        return None
    info = r.fsinfo
    d = None
    if info is not None and len(info) > 0:
        d = {k: (np.asarray(x).tolist() if not isinstance(x, str) else x) for k, x in info.items()}
    return [np.asarray(r.v, dtype=float).tolist(), np.asarray(r.t).astype(int).tolist(), d]


def run_impl(case):
    from lapy import TetMesh, TriaMesh
    from lapy import io as lio
    out = {}
    d = tempfile.mkdtemp(prefix="c14_")
    try:
        ct = case["ctype"]
        if ct == "tria":
            v = np.array(case["v"], dtype=case["vdtype"])
            t = np.array(case["t"], dtype=case["tdtype"])
            v32 = v.astype(np.float32)
            m = TriaMesh(v, t, fsinfo=case["fsinfo"] and {k: (np.array(x) if isinstance(x, list) else x) for k, x in case["fsinfo"].items()})
            fn = os.path.join(d, "m.vtk")
            m.write_vtk(fn)
            text = open(fn).read()
            out["vtk_text"] = text
            r, err = _try(lambda: TriaMesh.read_vtk(fn))
            out["vtk_rt"] = err or _same_mesh(r, v32, t)
            out["vtk_read"] = None if r is None else [np.asarray(r.v, dtype=float).tolist(), np.asarray(r.t).tolist()]
            out["vtk_trunc"] = _truncations(text, (TriaMesh.read_vtk, ".vtk"), v32, t, 4, 5 + len(v) + 1 + len(t))
            files = [["vtk_tria", text]]
            files.append(["off", print_off(case["v"], case["t"])])
            files.append(["vtk_tria", print_vtk_tria(case["v"], case["t"], case["points_kw"], case["cells_kw"])])
            for kind, txt in list(files):
                ls = txt.splitlines(keepends=True)
                for cut in (len(ls) // 3 + 2, (2 * len(ls)) // 3 + 1, len(ls) - 1):
                    files.append([kind, "".join(ls[:cut])])
            recs = []
            for kind, txt in files:
                fx = os.path.join(d, "rec" + (".off" if kind == "off" else ".vtk"))
                open(fx, "w").write(txt)
                rr, _e = _try(lambda: (TriaMesh.read_off if kind == "off" else TriaMesh.read_vtk)(fx))
                recs.append([kind, txt, None if rr is None else [np.asarray(rr.v, dtype=float).tolist(), np.asarray(rr.t).tolist()]])
            out["files"] = recs
            fs = os.path.join(d, "lh.surf")
            _, err = _try(lambda: m.write_fssurf(fs))
            if err:
                out["fs_rt"] = "write:" + err
            else:
                r, err = _try(lambda: TriaMesh.read_fssurf(fs))
                out["fs_rt"] = err or _same_mesh(r, v32, t)
                if r is not None:
                    hi = r.fsinfo
                    if case["fsinfo"] is None:
                        out["fs_hdr"] = "ok" if (hi is None or len(hi) == 0) else "unexpected header"
                    else:
                        def _heq(a, b):
                            if isinstance(b, str):
                                return a == b
                            a, b = np.asarray(a, dtype=float), np.asarray(b, dtype=float)
                            # nibabel's writer formats the float fields with limited precision (third-party, trusted)
                            return a.shape == b.shape and np.allclose(a, b, rtol=1e-6, atol=1e-9)
                        okh = hi is not None and all(k in hi and _heq(hi[k], x) for k, x in case["fsinfo"].items())
                        out["fs_hdr"] = "ok" if okh else "header differs"
                raw = open(fs, "rb").read()
                out["fs_fields"] = fs_fields(raw)
                fsreads = [[out["fs_fields"], _fsobs(r)]]
                # wrong magic number; truncations at arbitrary byte positions (header, vertex and face arrays, footer)
                variants = [bytes([raw[0], raw[1], 253]) + raw[3:], b"\xff\xff\xff" + raw[3:]]
                nvb = 3 + len(raw[3:].split(b"\n", 1)[0]) + 2
                for cut in (2, nvb + 3, nvb + 8 + 5, nvb + 8 + 12 * len(v) // 2 + 1, nvb + 8 + 12 * len(v) + 12 * len(t) // 2 + 2,
                            nvb + 8 + 12 * len(v) + 12 * len(t) - 1, nvb + 8 + 12 * len(v) + 12 * len(t)):
                    if 0 < cut < len(raw):
                        variants.append(raw[:cut])
                for q, vb in enumerate(variants):
                    fq = os.path.join(d, "var%d.surf" % q)
                    open(fq, "wb").write(vb)
                    rq, _e = _try(lambda: TriaMesh.read_fssurf(fq))
                    fsreads.append([fs_fields(vb), _fsobs(rq)])
                out["fs_reads"] = fsreads
                # truncation of the binary file inside the vertex / face arrays
                badb = []
                for cut in (len(raw) // 4, len(raw) // 2, len(raw) * 3 // 4):
                    if case["fsinfo"] is not None and cut > len(raw) - 200:
                        continue
                    f2 = os.path.join(d, "cut.surf")
                    open(f2, "wb").write(raw[:cut])
                    r2, e2 = _try(lambda: TriaMesh.read_fssurf(f2))
                    if r2 is not None:
                        badb.append([cut, _same_mesh(r2, v32, t)])
                out["fs_trunc"] = badb
            # foreign files
            for name, txt, reader, tt_ in (
                    ("off", print_off(case["v"], case["t"]), TriaMesh.read_off, case["t"]),
                    ("vtk_foreign", print_vtk_tria(case["v"], case["t"], case["points_kw"], case["cells_kw"]), TriaMesh.read_vtk, case["t"])):
                f3 = os.path.join(d, name + (".off" if name == "off" else ".vtk"))
                open(f3, "w").write(txt)
                r, err = _try(lambda: reader(f3))
                out[name] = err or _same_mesh(r, np.array(case["v"], dtype=np.float32), np.array(tt_))
                nhead = 3 if name == "off" else 5
                out[name + "_trunc"] = _truncations(txt, (reader, ".off" if name == "off" else ".vtk"),
                                                    np.array(case["v"], dtype=np.float32), np.array(tt_), nhead - 1,
                                                    nhead + len(case["v"]) + (0 if name == "off" else 1) + len(tt_))
            n = min(case["strip_n"], len(case["v"]))
            if n >= 3:
                # strips files (also with several strips, short strips, a truncated one) go through the model reader as well
                # (TriaMesh itself cannot hold fewer than 3 triangles -- C20 -- so only strips with >= 3 triangles in total)
                stx = []
                if n >= 5:
                    stx.append(print_vtk_strips(case["v"], [list(range(n))]))
                if len(case["v"]) >= 6:
                    stx.append(print_vtk_strips(case["v"], [list(range(4)), list(range(len(case["v"]) - 1, len(case["v"]) - 5, -1))]))
                stx.append("".join(print_vtk_strips(case["v"], [list(range(n))]).splitlines(keepends=True)[:-1]))
                for sx in stx:
                    fxs = os.path.join(d, "rs.vtk")
                    open(fxs, "w").write(sx)
                    rr, _e = _try(lambda: TriaMesh.read_vtk(fxs))
                    out["files"].append(["vtk_tria", sx, None if rr is None else [np.asarray(rr.v, dtype=float).tolist(), np.asarray(rr.t).tolist()]])
            nv_ = len(case["v"])
            if nv_ >= 5:
                # several strips of five vertices (three triangles each) and every line-prefix of that file: what remains after
                # a cut inside the strip section would still be enough for a TriaMesh, so it must be the reader that refuses
                ns_ = 2 + case["strip_n"] % 2
                ms = [[(2 * j + i) % nv_ for i in range(5)] for j in range(ns_)]
                mt = [[s_[i - 2], s_[i - 1], s_[i]] if i % 2 == 0 else [s_[i - 1], s_[i - 2], s_[i]] for s_ in ms for i in range(2, 5)]
                mtxt = print_vtk_strips(case["v"], ms)
                f5 = os.path.join(d, "mstrip.vtk")
                open(f5, "w").write(mtxt)
                r, err = _try(lambda: TriaMesh.read_vtk(f5))
                out["mstrips"] = err or _same_mesh(r, np.array(case["v"], dtype=np.float32), np.array(mt))
                out["strips_trunc"] = _truncations(mtxt, (TriaMesh.read_vtk, ".vtk"), np.array(case["v"], dtype=np.float32),
                                                   np.array(mt), 4, 5 + nv_ + 1 + ns_)
                for sx in (mtxt, "".join(mtxt.splitlines(keepends=True)[:-1])):
                    open(f5, "w").write(sx)
                    rr, _e = _try(lambda: TriaMesh.read_vtk(f5))
                    out["files"].append(["vtk_tria", sx, None if rr is None else [np.asarray(rr.v, dtype=float).tolist(), np.asarray(rr.t).tolist()]])
            if n >= 5:
                # a strip of n >= 5 vertices denotes >= 3 triangles, the smallest mesh TriaMesh can hold
                f4 = os.path.join(d, "strip.vtk")
                open(f4, "w").write(print_vtk_strips(case["v"], [list(range(n))]))
                r, err = _try(lambda: TriaMesh.read_vtk(f4))
                out["strips"] = err or _same_mesh(r, np.array(case["v"], dtype=np.float32), np.array(strips_of(n)))
            # wrong kind
            r, err = _try(lambda: TriaMesh.read_vtk(os.path.join(d, "off.off")))
            out["wrong_kind"] = "ok" if r is None else "OFF file accepted as VTK"
        elif ct == "tet":
            v = np.array(case["v"], dtype=case["vdtype"])
            t = np.array(case["t"], dtype=case["tdtype"])
            v32 = v.astype(np.float32)
            m = TetMesh(v, t)
            fn = os.path.join(d, "m.vtk")
            m.write_vtk(fn)
            text = open(fn).read()
            out["vtk_text"] = text
            r, err = _try(lambda: TetMesh.read_vtk(fn))
            out["vtk_rt"] = err or _same_mesh(r, v32, t)
            out["vtk_read"] = None if r is None else [np.asarray(r.v, dtype=float).tolist(), np.asarray(r.t).tolist()]
            out["vtk_trunc"] = _truncations(text, (TetMesh.read_vtk, ".vtk"), v32, t, 4, 5 + len(v) + 1 + len(t))
            files = [["vtk_tet", text]]
            ls = text.splitlines(keepends=True)
            for cut in (len(ls) // 3 + 2, (2 * len(ls)) // 3 + 1, len(ls) - 1):
                files.append(["vtk_tet", "".join(ls[:cut])])
            recs = []
            for kind, txt in files:
                fx = os.path.join(d, "rec.vtk")
                open(fx, "w").write(txt)
                rr, _e = _try(lambda: TetMesh.read_vtk(fx))
                recs.append([kind, txt, None if rr is None else [np.asarray(rr.v, dtype=float).tolist(), np.asarray(rr.t).tolist()]])
            f2 = os.path.join(d, "m.msh")
            txt = print_gmsh(case["v"], case["t"], case["ntags"])
            gl = txt.splitlines(keepends=True)
            for cut in (None, 2, 5 + len(case["v"]) // 2, 5 + len(case["v"]), 7 + len(case["v"]), len(gl) - 2, len(gl) - 1):
                gt = txt if cut is None else "".join(gl[:cut])
                fx = os.path.join(d, "rec.msh")
                open(fx, "w").write(gt)
                rr, _e = _try(lambda: TetMesh.read_gmsh(fx))
                recs.append(["gmsh", gt, None if rr is None else [np.asarray(rr.v, dtype=float).tolist(), np.asarray(rr.t).tolist()]])
            # the same mesh with an extra node in front that no tetrahedron uses (a geometry point kept by the mesher): node numbers
            # stay 1-based, the described mesh has the extra vertex 0 and all element indices one higher
            vx = [[9.5, -3.25, 0.125]] + [list(p_) for p_ in case["v"]]
            tx = [[i + 1 for i in r_] for r_ in case["t"]]
            txt_x = print_gmsh(vx, tx, case["ntags"])
            fx = os.path.join(d, "recx.msh")
            open(fx, "w").write(txt_x)
            rr, _e = _try(lambda: TetMesh.read_gmsh(fx))
            recs.append(["gmsh", txt_x, None if rr is None else [np.asarray(rr.v, dtype=float).tolist(), np.asarray(rr.t).tolist()]])
            out["gmsh_unused_first"] = _e or _same_mesh(rr, np.array(vx, dtype=np.float32), np.array(tx))
            out["files"] = recs
            open(f2, "w").write(txt)
            r, err = _try(lambda: TetMesh.read_gmsh(f2))
            out["gmsh"] = err or _same_mesh(r, np.array(case["v"], dtype=np.float32), np.array(case["t"]))
            out["gmsh_trunc"] = _truncations(txt, (TetMesh.read_gmsh, ".msh"), np.array(case["v"], dtype=np.float32), np.array(case["t"]),
                                             4, 5 + len(case["v"]) + 3 + len(case["t"]))
        elif ct == "ev":
            dd = dict(case["d"])
            dd["Eigenvalues"] = np.array(dd["Eigenvalues"], dtype=case["dtype"])
            if "Eigenvectors" in dd:
                dd["Eigenvectors"] = np.array(dd["Eigenvectors"], dtype=case["dtype"])
            fn = os.path.join(d, "x.ev")
            _, err = _try(lambda: lio.write_ev(fn, dd))
            if err:
                out["ev"] = "write:" + err
            else:
                out["ev_text"] = open(fn).read()
                r, err = _try(lambda: lio.read_ev(fn))
                if err or r is None:
                    out["ev"] = "read:" + str(err)
                else:
                    probs = []
                    for k, x in dd.items():
                        if k not in r:
                            probs.append("missing " + k)
                        elif isinstance(x, np.ndarray):
                            got = np.asarray(r[k])
                            if got.shape != x.shape or not np.array_equal(got.astype(x.dtype), x):
                                probs.append(f"{k} differs (shape {got.shape} vs {x.shape})")
                        elif r[k] != x:
                            probs.append(f"{k}: {r[k]!r} != {x!r}")
                    out["ev"] = "ok" if not probs else "; ".join(probs)
                    # history: edit the dictionary that was just read (drop / repeat modes) and write it again
                    if "Eigenvectors" in r:
                        for tag, cols in (("drop", slice(0, max(1, np.asarray(r["Eigenvectors"]).shape[1] - 1))), ("repeat", None)):
                            r2 = dict(r)
                            E = np.asarray(r["Eigenvectors"])
                            r2["Eigenvectors"] = E[:, cols] if cols is not None else np.hstack([E, E[:, :1]])
                            f2 = os.path.join(d, "y.ev")
                            _, e2 = _try(lambda: lio.write_ev(f2, r2))
                            r3, e3 = _try(lambda: lio.read_ev(f2))
                            ok2 = (e2 is None and e3 is None and r3 is not None and "Eigenvectors" in r3
                                   and np.asarray(r3["Eigenvectors"]).shape == r2["Eigenvectors"].shape
                                   and np.array_equal(np.asarray(r3["Eigenvectors"]), r2["Eigenvectors"]))
                            if not ok2:
                                out["ev_history"] = f"{tag}: second write/read of an edited dictionary does not round-trip"
                    out["ev_read"] = {k: (np.asarray(x, dtype=float).tolist() if isinstance(x, np.ndarray) else x) for k, x in r.items()}
        elif ct == "vfunc":
            f = np.array(case["f"], dtype=case["dtype"])
            fn = os.path.join(d, "f.psol")
            _, err = _try(lambda: lio.write_vfunc(fn, f))
            if err:
                out["vfunc"] = "write:" + err
            else:
                out["vfunc_text"] = open(fn).read()
                r, err = _try(lambda: lio.read_vfunc(fn))
                if err or r is None:
                    out["vfunc"] = "read:" + str(err)
                else:
                    out["vfunc"] = "ok" if (len(r) == len(f) and np.array_equal(np.array(r).astype(f.dtype), f)) else "values differ"
    finally:
        shutil.rmtree(d, ignore_errors=True)
    return out


import re

_INT = re.compile(r"[+-]?[0-9]+$")


def tokens(text, round32):
    toks = []
    for line in text.split("\n")[:-1] if text.endswith("\n") else text.split("\n"):
        comment = line.lstrip().startswith("#")
        for w in line.split():
            if comment:
                toks.append("Tok (TW %s)" % core.cstring(w))
            elif _INT.match(w):
                toks.append("Tok (TZ %s)" % core.cz(int(w)))
            else:
                try:
                    x = float(w)
                    if round32:
                        x = float(np.float32(x))
                    toks.append("Tok (TF %s)" % core.cfloat(x))
                except ValueError:
                    toks.append("Tok (TW %s)" % core.cstring(w))
        toks.append("EOL")
    if not text.endswith("\n") and toks:
        toks.pop()      # last line without newline
    return "[" + "; ".join(toks) + "]"


def _meshres(kind, r):
    if r is None:
        return "NoMesh"
    ctor = "TetRes" if kind in ("vtk_tet", "gmsh") else "TriaRes"
    return f"({ctor} {core.cv3list(r[0])} {core.ctuples(r[1])})"


def coq_case(case, out):
    if case["ctype"] not in ("tria", "tet") or "files" not in out:
        return None
    kmap = {"vtk_tria": "RVtkTria", "vtk_tet": "RVtkTet", "off": "ROff", "gmsh": "RGmsh"}
    v = np.array(case["v"], dtype=case["vdtype"]).astype(float).tolist()
    written = ("(TetRes %s %s)" if case["ctype"] == "tet" else "(TriaRes %s %s)") % (core.cv3list(v), core.ctuples(case["t"]))
    reads = "[" + "; ".join("(%s, %s, %s)" % (kmap[k], tokens(txt, True), _meshres(k, r)) for k, txt, r in out["files"]) + "]"
    # a float32 coordinate is written with its shortest float32 repr: compare after rounding the token to float32
    parts = ["MeshFiles %s %s %s" % (written, tokens(out["vtk_text"], case["vdtype"] == "float32"), reads)]
    if case["ctype"] == "tria" and "fs_fields" in out:
        v32 = np.array(case["v"], dtype=case["vdtype"]).astype(np.float32).astype(float).tolist()
        stamp = next((f[1] for f in out["fs_fields"] if f[0] == "line"), "")

        def obs(o):
            if o is None:
                return "FsNone"
            return "(FsMesh %s %s %s)" % (core.cv3list(o[0]), core.ctuples(o[1]), _cinfo(o[2]))
        rd = "[" + "; ".join("(%s, %s)" % (_cfields(f), obs(o)) for f, o in out["fs_reads"]) + "]"
        parts.append("FsFiles %s %s %s %s %s %s" % (core.cstring(stamp), core.cv3list(v32), core.ctuples(case["t"]),
                                                   _cinfo(_fmt10(case["fsinfo"])), _cfields(out["fs_fields"]), rd))
    return "[" + "; ".join(parts) + "]"


def oracle(case, out):
    V = []
    def bad(clause, detail, wc=None):
        V.append({"clause": clause, "detail": detail, "witness_class": wc})
    ct = case["ctype"]
    if ct in ("tria", "tet"):
        if out.get("vtk_rt") != "ok":
            bad(f"{ct}_vtk_write_read_round_trip", str(out.get("vtk_rt")))
        for key in ("vtk_trunc", "off_trunc", "vtk_foreign_trunc", "gmsh_trunc", "fs_trunc", "strips_trunc"):
            for item in out.get(key, []):
                if item[1] == "ok":
                    continue          # the cut fell behind the element section: the same mesh is fine
                bad("truncated_file_must_not_load", f"{key}: cut {item[0]} -> {item[1:]}", key)
                break
    if ct == "tria":
        if out.get("fs_rt") != "ok":
            bad("freesurfer_write_read_round_trip", str(out.get("fs_rt")))
        if out.get("fs_hdr", "ok") != "ok":
            bad("freesurfer_header_preserved", out["fs_hdr"])
        if out.get("off") != "ok":
            bad("off_file_loads_to_described_mesh", str(out.get("off")))
        if out.get("vtk_foreign") != "ok":
            bad("foreign_vtk_polygons_load_to_described_mesh", str(out.get("vtk_foreign")), case["cells_kw"] + "_" + case["points_kw"])
        if out.get("strips", "ok") != "ok":
            bad("vtk_triangle_strips_load_to_described_mesh", str(out.get("strips")))
        if out.get("mstrips", "ok") != "ok":
            bad("vtk_triangle_strips_load_to_described_mesh", "several strips: " + str(out.get("mstrips")))
        if out.get("wrong_kind") != "ok":
            bad("wrong_kind_file_rejected", str(out.get("wrong_kind")))
    if ct == "tet":
        if out.get("gmsh") != "ok":
            bad("gmsh_file_loads_to_described_mesh_zero_based", str(out.get("gmsh")), f"tags{case['ntags']}")
        if out.get("gmsh_unused_first", "ok") != "ok":
            bad("gmsh_file_loads_to_described_mesh_zero_based", "first node unused: " + str(out.get("gmsh_unused_first")), f"tags{case['ntags']}")
    if ct == "ev" and out.get("ev") != "ok":
        wc = None
        d = case["d"]
        if "Eigenvectors" in d and len(d["Eigenvectors"][0]) == 1:
            wc = "k=1"
        bad("ev_write_read_round_trip", str(out.get("ev")), wc)
    if ct == "ev" and "ev_history" in out:
        bad("ev_round_trip_after_editing_a_read_dictionary", out["ev_history"], "history")
    if ct == "vfunc" and out.get("vfunc") != "ok":
        bad("vfunc_write_read_round_trip", str(out.get("vfunc")))
    return V


def nontrivial(case, out):
    if case["ctype"] in ("tria", "tet"):
        return len(case["t"]) >= 4
    return case["ctype"] == "ev" and "Eigenvectors" in case["d"]
