"""C05  Poisson solver honours the equation and its boundary data."""
import numpy as np

from .. import core, femcommon as fc, gen_mesh as gm

ID = "C05"
LIMIT = 40.0
RULE = ("meshes as in C01 (tria + tet, several components, float64) x lump x Dirichlet sets (1..6 indices, at least one per component, "
        "unsorted, non-constant data handed over as float64 / integer / float32 array or plain list) x right-hand sides (scalar 0 / scalar c / vector / column) x optional Neumann data (disjoint from or "
        "overlapping the Dirichlet set); flat meshes with all boundary vertices prescribed for affine reproduction; a malformed stream "
        "(duplicate indices, mismatched lengths, wrong-size h, empty tuples). distinct = hash of the case; non-trivial = >= 2 Dirichlet "
        "vertices with different values, or Neumann data present")
TRUSTED = ["SuperLU (splu) is an oracle: the check verifies its output against the model's equation instead of modelling the factorisation"]
ASSUMPTIONS = ["residuals compared at 2e-5 relative to sum |A_kj||x_j| + |rhs_k| (the code casts the right-hand side to float32)"]
EXHAUSTIVE = {"quick": False, "thorough": False}
SHARD_BYTES = 100_000

COQ_HEADER = """From Coq Require Import List PrimFloat String.
From LaPyV Require Import Base.Scalar Base.Vec3 Base.ListAux Base.Sparse Model.TetMesh Model.TriaAdj Model.Fem Model.Poisson Chk.Cmp Chk.C09 Chk.C05.
Import ListNotations. Open Scope float_scope."""
COQ_CHECK = "check_c05"
COQ_LABELS = ["validation_outcome", "dirichlet_values_exact", "equation_at_free_vertices"]


def components(n, t):
    parent = list(range(n))
    def find(x):
        while parent[x] != x:
            parent[x] = parent[parent[x]]
            x = parent[x]
        return x
    for r in t:
        for a in r[1:]:
            ra, rb = find(r[0]), find(a)
            if ra != rb:
                parent[ra] = rb
    comp = {}
    for i in range(n):
        comp.setdefault(find(i), []).append(i)
    return list(comp.values())


def boundary_vertices(t):
    und = {}
    for r in t:
        for a, b in ((r[0], r[1]), (r[1], r[2]), (r[2], r[0])):
            und[frozenset((a, b))] = und.get(frozenset((a, b)), 0) + 1
    return sorted(set(i for e, c in und.items() if c == 1 for i in e))


def generate(rng, tier):
    nt, nq = (70, 30) if tier == "quick" else (600, 250)
    base = fc.fem_mesh_cases(rng, tier, nt, nq, allow_f32=False)
    cases = []
    for c in base:
        n = len(c["v"])
        comps = components(n, c["t"])
        didx = [rng.choice(cc) for cc in comps]
        extra = rng.randint(0, 5)
        pool = [i for i in range(n) if i not in didx]
        rng.shuffle(pool)
        didx += pool[:min(extra, max(0, len(pool) - 1))]
        rng.shuffle(didx)
        ddat = [rng.uniform(-2, 2) for _ in didx]
        hk = rng.choice(["zero", "scalar", "vector", "column"])
        h = 0.0 if hk == "zero" else (rng.uniform(-1, 1) if hk == "scalar" else [rng.uniform(-1, 1) for _ in range(n)])
        nt_ = None
        r = rng.random()
        if r < 0.25:
            k = rng.randint(1, 3)
            free = [i for i in range(n) if i not in didx] or [0]
            nidx = [rng.choice(free) for _ in range(k)]
            nt_ = [nidx, [rng.uniform(-1, 1) for _ in nidx]]
        elif r < 0.4:
            nidx = [didx[0]] + ([rng.randrange(n)] if n > 1 else [])
            nt_ = [nidx, [rng.uniform(-1, 1) for _ in nidx]]
        # the form in which the Dirichlet values are handed over: float64 array (mostly), integer array, float32 array, plain list
        dd = rng.choice(["float64", "float64", "float64", "int64", "float32", "list"])
        if dd == "int64":
            ddat = [float(rng.randint(-3, 3)) for _ in didx]
        elif dd == "float32":
            ddat = [float(np.float32(x)) for x in ddat]
        c["ddtype"] = dd
        c.update({"didx": didx, "ddat": ddat, "hkind": hk, "h": h, "ntup": nt_, "bad": None,
                  "alpha": rng.uniform(-2, 2), "ddat2": [rng.uniform(-2, 2) for _ in didx]})
        m = rng.random()
        if m < 0.04 and len(didx) >= 1:
            c["didx"] = didx + [didx[0]]
            c["ddat"] = ddat + [0.5]
            c["bad"] = "duplicate"
        elif m < 0.08:
            c["ddat"] = ddat + [1.0]
            c["bad"] = "length"
        elif m < 0.11 and hk in ("vector", "column"):
            c["h"] = c["h"][:-1]
            c["bad"] = "hsize"
        elif m < 0.13 and nt_ is not None:
            c["ntup"] = [nt_[0], nt_[1] + [0.0]]
            c["bad"] = "nlength"
        cases.append(c)
    # affine reproduction on flat meshes
    for k in range(12 if tier == "quick" else 100):
        v, t = (gm.grid(rng.randint(2, 4), rng.randint(2, 4), rng, None, "rand") if k % 2 else gm.delaunay2d(rng.randint(8, 16), rng, None))
        v = gm.jitter(v, rng, 0.0)
        if rng.random() < 0.5:
            v, _, _, _ = gm.similarity(v, rng)
        if len(t) < 3:
            continue
        b = boundary_vertices(t)
        a = np.array([rng.uniform(-1, 1) for _ in range(3)])
        f = (np.array(v) @ a + 0.3).tolist()
        rng.shuffle(b)
        cases.append({"kind": "tria", "family": "flat_affine", "v": v, "t": t, "lump": rng.random() < 0.5, "vdtype": "float64",
                      "tdtype": "int64", "didx": b, "ddat": [f[i] for i in b], "hkind": "zero", "h": 0.0, "ntup": None, "bad": None,
                      "affine": f, "alpha": 1.5, "ddat2": [0.0 for _ in b]})
    return cases


def _args(case, ddat=None, h=None):
    hk = case["hkind"]
    hh = case["h"] if h is None else h
    if hk == "vector":
        hh = np.array(hh, dtype=float)
    elif hk == "column":
        hh = np.array(hh, dtype=float)[:, None]
    dd = case.get("ddtype", "float64") if ddat is None else "float64"
    vals = case["ddat"] if ddat is None else ddat
    dt = (np.array(case["didx"], dtype=int), [float(x) for x in vals] if dd == "list" else np.array(vals, dtype=float).astype(dd))
    nt = ()
    if case["ntup"] is not None:
        nt = (np.array(case["ntup"][0], dtype=int), np.array(case["ntup"][1], dtype=float))
    return hh, dt, nt


def run_impl(case):
    from lapy import Solver
    out = {}
    try:
        m = fc.build_mesh(case)
        s = Solver(m, lump=case["lump"])
        out["A"] = fc.coo_of(s.stiffness)
        out["B"] = fc.coo_of(s.mass)
        hh, dt, nt = _args(case)
        didx0, ddat0 = dt[0].copy(), np.array(dt[1], copy=True)
        h0 = np.array(hh, copy=True) if isinstance(hh, np.ndarray) else hh
        n0 = tuple(np.array(a, copy=True) for a in nt)
        try:
            x = s.poisson(hh, dt, nt)
            out["x"] = np.asarray(x, dtype=float).tolist()
        except Exception as e:
            out["x"] = core.errkind(e)
            out["x_msg"] = str(e)[:200]
        out["args_untouched"] = bool(np.array_equal(dt[0], didx0) and np.array_equal(dt[1], ddat0)
                                     and (not isinstance(hh, np.ndarray) or np.array_equal(hh, h0))
                                     and all(np.array_equal(a, b) for a, b in zip(nt, n0)))
        if not isinstance(out["x"], str):
            # the same call again, with the very same argument objects, must give the same answer
            try:
                xr = s.poisson(hh, dt, nt)
                out["repeat_err"] = float(np.abs(np.asarray(xr, dtype=float) - np.asarray(x, dtype=float)).max())
            except Exception as e:
                out["repeat_err"] = core.errkind(e)
        if case["bad"] is None and not isinstance(out["x"], str):
            # linearity: solve with second Dirichlet data (h = 0, n = 0) and with the combination
            c0 = dict(case, hkind="zero", h=0.0, ntup=None)
            x1 = s.poisson(*_args(c0))
            x2 = s.poisson(*_args(c0, ddat=case["ddat2"]))
            comb = (np.array(case["ddat"]) + case["alpha"] * np.array(case["ddat2"])).tolist()
            x3 = s.poisson(*_args(c0, ddat=comb))
            out["lin_err"] = float(np.abs(x3 - (x1 + case["alpha"] * x2)).max())
            out["lin_scale"] = float(np.abs(x1).max() + abs(case["alpha"]) * np.abs(x2).max() + 1e-300)
    except Exception as e:
        out["error"] = core.errkind(e)
        out["error_msg"] = str(e)[:300]
    return out


def _copt(t):
    if t is None:
        return "None"
    return f"(Some ({core.cnlist(t[0])}, {core.cflist(t[1])}))"


def coq_case(case, out):
    if "error" in out:
        return None
    mesh = ("(MTria %s %s)" if case["kind"] == "tria" else "(MTet %s %s)") % (core.cv3list(case["v"]), core.ctuples(case["t"]))
    hk = case["hkind"]
    h = f"(HScalar {core.cfloat(case['h'])})" if hk in ("zero", "scalar") else f"(HVector {core.cflist(case['h'])})"
    x = out["x"]
    if isinstance(x, str):
        obs = "(Err %s)" % {"ValueError": "ValueError", "IndexError": "IndexError"}.get(x, "OtherError")
    else:
        obs = f"(Ok {core.cflist(x)})"
    return "(%s, %s, %s, %s, %s, %s, %s)" % ("0x1.4f8b588e368f1p-16", mesh, core.cbool(case["lump"]), h,
                                            _copt([case["didx"], case["ddat"]]), _copt(case["ntup"]), obs)


def oracle(case, out):
    V = []
    def bad(clause, detail, wc=None):
        V.append({"clause": clause, "detail": detail, "witness_class": wc})
    if "error" in out:
        bad("solver_constructs", out["error"] + ": " + out.get("error_msg", ""))
        return V
    x = out["x"]
    if case["bad"] is not None:
        if x != "ValueError":
            bad("rejects_malformed_input_with_ValueError", f"{case['bad']}: {x if isinstance(x, str) else 'accepted'}", case["bad"])
        return V
    if isinstance(x, str):
        bad("poisson_no_exception", x + ": " + out.get("x_msg", ""), x)
        return V
    if "repeat_err" in out and (isinstance(out["repeat_err"], str) or out["repeat_err"] > 1e-9 * (1 + np.abs(np.array(out["x"])).max())):
        bad("poisson_repeatable_with_the_same_arguments", f"second call differs by {out['repeat_err']}")
    if not out["args_untouched"]:
        bad("arguments_not_modified", "dtup arrays changed")
    x = np.array(x)
    A, B = fc.dense(out["A"]), fc.dense(out["B"])
    n = len(x)
    didx, ddat = np.array(case["didx"], dtype=int), np.array(case["ddat"])
    if np.abs(x[didx] - ddat).max() > 0:
        bad("dirichlet_values_exact", f"max diff {np.abs(x[didx] - ddat).max()}", "unsorted" if list(didx) != sorted(didx) else None)
    hk = case["hkind"]
    h = np.full(n, float(case["h"])) if hk in ("zero", "scalar") else np.array(case["h"], dtype=float)
    nv = np.zeros(n)
    if case["ntup"] is not None:
        np.add.at(nv, np.array(case["ntup"][0], dtype=int), np.array(case["ntup"][1]))
    rhs = B @ (h - nv)
    res = A @ x - rhs
    free = np.ones(n, bool)
    free[didx] = False
    sc = np.abs(A) @ np.abs(x) + np.abs(rhs) + np.abs(B) @ np.abs(h - nv) + 1e-300
    if free.any() and (np.abs(res[free]) / sc[free]).max() > 5e-5:
        bad("equation_holds_at_free_vertices", f"max relative residual {(np.abs(res[free]) / sc[free]).max()}",
            "neumann_overlaps_dirichlet" if case["ntup"] is not None and set(case["ntup"][0]) & set(case["didx"]) else None)
    if "affine" in case:
        f = np.array(case["affine"])
        if np.abs(x - f).max() > 2e-5 * (np.abs(f).max() + 1e-300):
            bad("reproduces_affine_function_on_flat_mesh", f"max diff {np.abs(x - f).max()}")
    if "lin_err" in out and out["lin_err"] > 2e-4 * out["lin_scale"]:
        bad("depends_linearly_on_data", f"superposition error {out['lin_err']} (scale {out['lin_scale']})")
    return V


def nontrivial(case, out):
    return case["bad"] is None and "error" not in out and (len(set(case["ddat"])) >= 2 or case["ntup"] is not None)
