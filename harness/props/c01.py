"""C01  Stiffness matrix is the exact piecewise-linear Dirichlet form."""
import numpy as np

from .. import core, femcommon as fc, gen_mesh as gm

ID = "C01"
LIMIT = 30.0
RULE = ("triangle meshes (grids, height fields, fans, annuli, closed polyhedra, tori, Delaunay, unions, non-manifold books, Moebius "
        "strips; random flips / cyclic rotations / element reorderings / relabellings / similarity transforms; float32/float64, "
        "int32/int64) and tet meshes (Kuhn, Delaunay, subsets; flips), all vertices used, non-degenerate; plus oriented manifold "
        "meshes with aniso in {0, scalar, pair}, 30% of them 1e4 diameters away from the origin, and three exactly symmetric ones (regular icosahedron, 3x3 torus). distinct = hash of the case; non-trivial = at least one obtuse or non-right element "
        "(measured: some off-diagonal stiffness entry > 1e-9) and >= 2 elements")
TRUSTED = ["scipy csc_matrix((data,(i,j))) duplicate summation and inferred shape (modelled as triplet lists)",
           "curvature_tria output is taken from the implementation for aniso cases (curvature itself is C17)"]
ASSUMPTIONS = ["float32 vertex input is compared at 2e-4 (Coq has no executable binary32)",
               "aniso matrices are float32 in the code: compared at 2e-5"]
EXHAUSTIVE = {"quick": False, "thorough": False}
SHARD_BYTES = 120_000

COQ_HEADER = """From Coq Require Import List PrimFloat ZArith String.
From LaPyV Require Import Base.Scalar Base.Vec3 Base.ListAux Base.Sparse Model.TetMesh Model.Fem Chk.Cmp Chk.Fem.
Import ListNotations. Open Scope float_scope."""
COQ_CHECK = "check_fem"
COQ_LABELS = ["A_values", "A_support", "A_dim", "B_values", "B_support", "B_dim"]


def generate(rng, tier):
    nt, nq = (60, 30) if tier == "quick" else (500, 250)
    cases = fc.fem_mesh_cases(rng, tier, nt, nq, far=True)
    # a two-sided sheet: every triangle of a patch listed twice, the second time with the opposite winding (both faces carry
    # stiffness and mass; the mesh is closed and edge-manifold in the sense of C09)
    v, t = gm.grid(2, 2, rng, "smooth", "alt")
    cases.append({"kind": "tria", "family": "two_sided_sheet", "v": v, "t": [list(r) for r in t] + [[r[0], r[2], r[1]] for r in t],
                  "lump": False, "vdtype": "float64", "tdtype": "int64"})
    # a surface patch in nanometre units (coordinates ~1e-9, 4 * area ~1e-18, far below the machine epsilon: finding F27)
    for k in range(2):
        v, t = gm.grid(3, 2, rng, "smooth", "alt")
        cases.append({"kind": "tria", "family": "nano_tria", "v": (np.array(v, dtype=float) * 1e-9).tolist(), "t": t,
                      "lump": bool(k), "vdtype": "float64", "tdtype": "int64"})
    # anisotropic variants on oriented manifold meshes
    na = 24 if tier == "quick" else 200
    fams = ["gridh", "ico", "octa", "cube", "torus", "ellipsoid", "delaunay"]
    k = 0
    while k < na:
        fam = fams[k % len(fams)]
        v, t = gm.tria_family(fam, rng, small=True)
        if len(v) > 45 or len(t) < 4:
            continue
        v, t = gm.compact(v, t)
        if fam in ("cube", "octa", "ico"):
            v = gm.jitter(v, rng, 0.1)
        if fc.min_tria_quality(v, t) < 0.05:
            continue
        if rng.random() < 0.3:
            # world / scanner coordinates: the same surface 1e4 diameters away from the origin (float64 vertices)
            P = np.array(v, dtype=float)
            size = np.abs(P - P.mean(0)).max() + 1e-300
            d = np.array([rng.gauss(0, 1) for _ in range(3)])
            v = (P + d / np.linalg.norm(d) * size * 1e4).tolist()
            fam = fam + "_far"
        mode = k % 4
        aniso = [0.0, rng.choice([0.5, 2.0, 10.0]), [rng.choice([0.0, 1.0, 5.0]), rng.choice([0.0, 3.0, 50.0])], [0.0, 0.0]][mode]
        cases.append({"kind": "tria", "family": "aniso_" + fam, "v": v, "t": t, "lump": rng.random() < 0.5,
                      "vdtype": "float64", "tdtype": "int64", "aniso": aniso, "aniso_smooth": rng.choice([0, 1, 3, 10])})
        k += 1
    # exactly symmetric meshes (regular icosahedron, 3 x 3 torus): the pooled curvature direction of a triangle can be parallel to
    # its normal, so that the projection into the triangle plane is pure rounding noise (finding F23, seeded change C01_E)
    for fam, (v, t), sm in (("ico_regular", gm.icosahedron(), 0), ("torus33", gm.torus(3, 3), 1), ("torus33", gm.torus(3, 3), 3)):
        v, t = gm.compact(v, t)
        cases.append({"kind": "tria", "family": "aniso_" + fam, "v": v, "t": t, "lump": True, "vdtype": "float64", "tdtype": "int64",
                      "aniso": 0.0, "aniso_smooth": sm})
    # thin but valid triangles (zig-zag strips of caps and needles, smallest angle 1e-2 .. 1e-5): the measure of an element
    # must come from a formula that survives them, in single and in double precision
    for k in range(10 if tier == "quick" else 80):
        N = rng.randint(2, 7)
        w = rng.choice([0.3, 1.0, 2.5])
        f32 = k % 2 == 0
        h = w * (rng.choice([1e-2, 3e-3]) if f32 else rng.choice([1e-3, 1e-4, 1e-5]))
        shape = rng.choice(["cap", "needle"])
        if shape == "cap":
            v = [[w * j, 0.0, 0.0] for j in range(N + 1)] + [[w * (j + 0.5), h, 0.0] for j in range(N)]
        else:
            v = [[h * j, 0.0, 0.0] for j in range(N + 1)] + [[h * (j + 0.5), w, 0.0] for j in range(N)]
        t = []
        for j in range(N):
            t.append([j, j + 1, N + 1 + j])
            if j + 1 < N:
                t.append([N + 1 + j, j + 1, N + 2 + j])
        if len(t) < 3:
            continue
        if rng.random() < 0.5:
            v, _, _, _ = gm.similarity(v, rng, scale=1.0)
        if f32:
            v = np.array(v, dtype=np.float32).astype(float).tolist()
        cases.append({"kind": "tria", "family": "thin_" + shape, "v": v, "t": t, "lump": rng.random() < 0.5,
                      "vdtype": "float32" if f32 else "float64", "tdtype": "int64"})
    for c in cases:
        n = len(c["v"])
        c["f"] = [rng.uniform(-1, 1) for _ in range(n)]
        c["g"] = [rng.uniform(-1, 1) for _ in range(n)]
        c["perm_seed"] = rng.randrange(1 << 30)
    return cases


def run_impl(case):
    import random
    from lapy import Solver
    out = {}
    try:
        mesh = fc.build_mesh(case)
        aniso = case.get("aniso")
        if aniso is not None:
            an = tuple(aniso) if isinstance(aniso, list) else aniso
            u1, u2, c1, c2 = mesh.curvature_tria(smoothit=case["aniso_smooth"])
            out["u1"], out["u2"], out["c1"], out["c2"] = u1.tolist(), u2.tolist(), c1.tolist(), c2.tolist()
            s = Solver(mesh, lump=case["lump"], aniso=an, aniso_smooth=case["aniso_smooth"])
            siso = Solver(mesh, lump=case["lump"])
            out["Aiso"] = fc.coo_of(siso.stiffness)
        else:
            s = Solver(mesh, lump=case["lump"])
        out["A"] = fc.coo_of(s.stiffness)
        out["B"] = fc.coo_of(s.mass)
        out["A_dtype"] = str(s.stiffness.dtype)
        # element-order / orientation invariance: reorder, rotate, flip elements
        if aniso is None:
            r = random.Random(case["perm_seed"])
            t2 = [list(x) for x in case["t"]]
            if case["kind"] == "tria":
                t2 = gm.rotate_rows(t2, r)
            t2, _ = gm.flip_some(t2, r, 0.5)
            t2, _ = gm.reorder(t2, r)
            c2_ = dict(case)
            c2_["t"] = t2
            s2 = Solver(fc.build_mesh(c2_), lump=case["lump"])
            out["A_perm"] = fc.coo_of(s2.stiffness)
    except Exception as e:
        out["error"] = core.errkind(e)
        out["error_msg"] = str(e)[:300]
    return out


def coq_case(case, out):
    if "error" in out:
        return None
    f32 = case["vdtype"] == "float32"
    dim = out["A"]["shape"][0]
    if case.get("aniso") is not None:
        an = case["aniso"]
        a0, a1 = (an[0], an[1]) if isinstance(an, list) else (an, an)
        return "(AnisoCase %s %s %s %s %s %s %s %s %s %s %s %s %d%%nat)" % (
            "0x1.4f8b588e368f1p-16", core.cv3list(case["v"]), core.ctuples(case["t"]), core.cbool(case["lump"]),
            core.cv3list(out["u1"]), core.cv3list(out["u2"]), core.cflist(out["c1"]), core.cflist(out["c2"]),
            core.cfloat(a0), core.cfloat(a1), fc.ccoo(out["A"]), fc.ccoo(out["B"]), dim)
    tol = "0x1.a36e2eb1c432dp-13" if f32 else "0x1.12e0be826d695p-30"   # 2e-4 / 1e-9
    ctor = "TriaCase" if case["kind"] == "tria" else "TetCase"
    return "(%s %s %s %s %s %s %s %d%%nat)" % (ctor, tol, core.cv3list(case["v"]), core.ctuples(case["t"]),
                                             core.cbool(case["lump"]), fc.ccoo(out["A"]), fc.ccoo(out["B"]), dim)


def oracle(case, out):
    V = []
    def bad(clause, detail, wc=None):
        V.append({"clause": clause, "detail": detail, "witness_class": wc})
    if "error" in out:
        bad("solver_constructs", out["error"] + ": " + out.get("error_msg", ""), out["error"])
        return V
    f32 = case["vdtype"] == "float32" or out.get("A_dtype") == "float32"
    A = fc.dense(out["A"])
    n = len(case["v"])
    if A.shape != (n, n):
        bad("stiffness_shape", f"{A.shape} vs {n}")
        return V
    scale = max(1e-300, np.abs(A).max())
    rtol = 2e-4 if f32 else 1e-9
    if not np.all(np.isfinite(A)):
        bad("stiffness_finite", "non-finite entry")
        return V
    pre = "aniso_" if case.get("aniso") is not None else "stiffness_"
    if np.abs(A - A.T).max() > rtol * scale:
        bad(pre + "symmetric", f"max asym {np.abs(A - A.T).max()}")
    if np.abs(A.sum(1)).max() > rtol * scale * 10:
        bad(pre + "constants_to_zero", f"max row sum {np.abs(A.sum(1)).max()}")
    w = np.linalg.eigvalsh((A + A.T) / 2)
    if w.min() < -rtol * scale * 10:
        bad(pre + "psd", f"min eigenvalue {w.min()}")
    f, g = np.array(case["f"]), np.array(case["g"])
    e_iso = fc.energy(case["v"], case["t"], f, g)
    e_ff = fc.energy(case["v"], case["t"], f, f)
    if case.get("aniso") is None:
        if abs(f @ A @ g - e_iso) > (2e-3 if f32 else 1e-8) * (abs(e_iso) + np.abs(A).sum() * 0.01 + 1e-12):
            bad("stiffness_energy_identity", f"f.A.g={f @ A @ g} independent={e_iso}")
        Ap = fc.dense(out["A_perm"])
        if np.abs(Ap - A).max() > (2e-3 if f32 else 1e-9) * scale:
            bad("stiffness_order_orientation_invariance", f"max diff {np.abs(Ap - A).max()}")
    else:
        Aiso = fc.dense(out["Aiso"])
        an = case["aniso"]
        zero = (an == 0.0) or (isinstance(an, list) and an[0] == 0.0 and an[1] == 0.0)
        if zero and np.abs(A - Aiso).max() > 2e-5 * max(scale, np.abs(Aiso).max()):
            bad("aniso0_equals_isotropic", f"max diff {np.abs(A - Aiso).max()}")
        ea = float(f @ A @ f)
        if ea > e_ff + 2e-5 * (abs(e_ff) + np.abs(Aiso).sum() * 0.01):
            bad("aniso_energy_le_isotropic", f"aniso {ea} iso {e_ff}")
    return V


def nontrivial(case, out):
    if "error" in out or len(case["t"]) < 2:
        return False
    a = [abs(x) for i, j, x in zip(out["A"]["i"], out["A"]["j"], out["A"]["a"]) if i != j]
    return any(x > 1e-9 for x in a)
