"""C08  Geodesic and rotated functions recover unit / quarter-turn gradients."""
import numpy as np

from .. import core, femcommon as fc, gen_mesh as gm

ID = "C08"
LIMIT = 40.0
RULE = ("connected triangle meshes (flat: grids, planar Delaunay, rigidly moved; curved: height fields, polyhedra, tori) and connected "
        "tet meshes (oriented / unoriented / mixed), all vertices used x vertex functions (affine with random direction, 30% of them of unit slope, random smooth; "
        "amplitudes 1, 1e-3, 1e-9, 1e-17, 1e-30, 1e8 (float32: >= 1e-9); dtypes float64, float32, int64). distinct = hash of the case; non-trivial = >= 4 elements")
TRUSTED = ["SuperLU on the singular but consistent system A g = div is an oracle; whether it returns, raises or emits non-finite values "
           "is runtime behaviour no theorem covers (monitored: see known finding F17)"]
ASSUMPTIONS = ["residuals compared at 2e-4 relative (float32 right-hand side, singular system)"]
EXHAUSTIVE = {"quick": False, "thorough": False}
SHARD_BYTES = 100_000

COQ_HEADER = """From Coq Require Import List PrimFloat String.
From LaPyV Require Import Base.Scalar Base.Vec3 Base.ListAux Base.Sparse Model.TetMesh Model.TriaAdj Model.Fem Model.TriaGeom Model.DiffGeo Model.Poisson Model.Geodesic Chk.Cmp Chk.C09 Chk.C05 Chk.C08.
Import ListNotations. Open Scope float_scope."""
COQ_CHECK = "check_c08"
COQ_LABELS = ["solves_system", "min_zero_or_pin", "length"]


def _connected(n, t):
    from .c05 import components
    return len(components(n, t)) == 1


def generate(rng, tier):
    cases = []
    n_t, n_q = (45, 25) if tier == "quick" else (400, 200)
    fams = ["flat_grid", "flat_delaunay", "gridh", "octa", "cube", "ico", "torus", "ellipsoid", "flat_grid", "flat_delaunay"]
    i = 0
    while len([c for c in cases if c["kind"] == "tria"]) < n_t:
        fam = fams[i % len(fams)]
        i += 1
        flat = fam.startswith("flat")
        if fam == "flat_grid":
            v, t = gm.grid(rng.randint(2, 4), rng.randint(2, 4), rng, None, rng.choice(["alt", "rand"]))
            v = [[p[0] + rng.uniform(-0.2, 0.2) * (0 < p[0]), p[1] + rng.uniform(-0.2, 0.2) * (0 < p[1]), 0.0] for p in v]
        elif fam == "flat_delaunay":
            v, t = gm.delaunay2d(rng.randint(7, 16), rng, None)
        else:
            v, t = gm.tria_family(fam, rng, small=True)
        v, t = gm.compact(v, t)
        if len(t) < 4 or len(v) > 40 or not _connected(len(v), t) or fc.min_tria_quality(v, t) < 0.08:
            continue
        flipped = False
        if rng.random() < 0.3:
            t, fl = gm.flip_some(t, rng, 0.4)
            flipped = any(fl)
        if rng.random() < 0.5:
            v, _, _, _ = gm.similarity(v, rng, reflect=rng.random() < 0.3)
        cases.append({"kind": "tria", "family": fam, "flat": flat, "v": v, "t": t, "flipped": flipped, "gridshape": None})
    j = 0
    while len([c for c in cases if c["kind"] == "tet"]) < n_q:
        fam = ["kuhn", "delaunay", "single", "kuhn"][j % 4]
        j += 1
        v, t = gm.tet_family(fam, rng, small=True)
        v, t = gm.compact(v, t)
        if not _connected(len(v), t) or len(v) > 30:
            continue
        mode = rng.choice(["oriented", "flipped", "mixed"])
        t = gm.orient_tets(v, t)
        if mode == "flipped":
            t = [[r[0], r[2], r[1], r[3]] for r in t]
        elif mode == "mixed":
            t, _ = gm.flip_some(t, rng, 0.5)
        ktet = len([c for c in cases if c["kind"] == "tet"])
        if ktet % 4 == 1:
            # the same element shapes in millimetre ... 10-micrometre units: the geodesic function scales with the mesh
            v = (np.array(v, dtype=float) * [1e-3, 1e-4, 1e-5][(ktet // 4) % 3]).tolist()
            fam = fam + "_small"
        cases.append({"kind": "tet", "family": "tet_" + fam + "_" + mode, "flat": True, "v": v, "t": t})
    for c in cases:
        p = np.array(c["v"])
        a = np.array([rng.gauss(0, 1) for _ in range(3)])
        fk = rng.choice(["affine", "affine", "smooth", "two_peaks"])
        if fk == "two_peaks":
            # a high narrow peak and a lower, wider one: the maximum of f and the minimum of the geodesic function are unrelated
            size = np.abs(p - p.mean(0)).max() + 1e-300
            c1, c2 = p[rng.randrange(len(p))], p[rng.randrange(len(p))]
            f = np.exp(-((p - c1) ** 2).sum(1) / (0.15 * size) ** 2) + 0.6 * np.exp(-((p - c2) ** 2).sum(1) / (0.6 * size) ** 2) \
                + 0.05 * (p @ a) / size
            fk = "smooth"
        elif fk == "affine":
            if c["kind"] == "tria" and c["flat"]:
                # direction inside the plane so that the gradient does not vanish
                n = np.cross(p[c["t"][0][1]] - p[c["t"][0][0]], p[c["t"][0][2]] - p[c["t"][0][0]])
                n = n / np.linalg.norm(n)
                a = a - n * (n @ a)
            if rng.random() < 0.3:
                a = a / np.linalg.norm(a)       # already of unit slope (e.g. a coordinate, a distance function, a previous result)
            f = p @ a + 0.4
        else:
            f = np.sin(p @ a) + 0.5 * (p @ np.array([0.3, -0.2, 0.5]))
        amp = rng.choice([1.0, 1.0, 1.0, 1e-3, 1e-9, 1e-17, 1e-30, 1e8])      # only the direction of the gradient may matter
        fd = rng.choice(["float64", "float64", "float32", "int64"])
        if "_small" in c["family"]:
            fd = "float64"      # a constant part of 0.4 with increments of 1e-5 is not resolved in single precision, and rounding
                                # to integers would leave a constant function (vanishing gradient: outside the property)
        if fd == "float32" and amp < 1e-9:
            amp = 1e-9          # squares of smaller gradients underflow in single precision
        if fd == "int64":
            amp = 1.0
            if c["kind"] == "tria" and c["family"] == "flat_grid" and not c.get("flipped"):
                # integer-valued AND affine: f = i + 2j on a spacing-2 grid (gradient (1/2, 1, 0) is not integral)
                m_, n_ = rng.randint(2, 4), rng.randint(2, 4)
                v2, t2 = gm.grid(m_, n_, rng, None, "alt")
                c["v"] = (np.array(v2) * 2.0).tolist()
                c["t"] = t2
                p = np.array(c["v"])
                a = np.array([0.5, 1.0, 0.0])
                f = p @ a
                fk = "affine"
            else:
                f = np.round(f * 7)
                fk = "smooth"
        c.update({"fkind": fk, "a": (a * amp).tolist(), "f": (f * amp).tolist(), "fdtype": fd, "amp": amp, "vdtype": "float64",
                  "tdtype": "int64", "lump": False})
    return cases


def run_impl(case):
    from lapy import Solver, diffgeo
    out = {}
    try:
        m = fc.build_mesh(case)
        f = np.array(case["f"], dtype=case["fdtype"])
        out["A"] = fc.coo_of(Solver(m).stiffness)
        for name, fn in (("geo", lambda: diffgeo.compute_geodesic_f(m, f)),
                         ("geo2", (lambda: diffgeo.tria_compute_geodesic_f(m, f)) if case["kind"] == "tria" else None),
                         ("rot", (lambda: diffgeo.compute_rotated_f(m, f)) if case["kind"] == "tria" else None)):
            if fn is None:
                continue
            try:
                out[name] = np.asarray(fn(), dtype=float).tolist()
            except Exception as e:
                out[name] = core.errkind(e) + ":" + str(e)[:80]
    except Exception as e:
        out["error"] = core.errkind(e)
        out["error_msg"] = str(e)[:300]
    return out


def coq_case(case, out):
    if "error" in out:
        return None
    lits = []
    tol = "0x1.a36e2eb1c432dp-13"
    f = case["f"]
    ok = lambda x: isinstance(x, list) and np.all(np.isfinite(x))
    if case["kind"] == "tria":
        if ok(out.get("geo")) and ok(out.get("geo2")) and ok(out.get("rot")):
            # one literal per case: the geodesic pair; the rotated function is checked through a second constructor below
            g = "(GeoTria %s %s %s %s %s %s %s)" % (tol, core.cv3list(case["v"]), core.ctuples(case["t"]), core.cflist(f),
                                                   core.cflist(out["geo"]), core.cflist(out["geo2"]), core.cflist(out["rot"]))
            return g
        return None
    if ok(out.get("geo")):
        return "(GeoTet %s %s %s %s %s)" % (tol, core.cv3list(case["v"]), core.ctuples(case["t"]), core.cflist(f), core.cflist(out["geo"]))
    return None


def _indep_div(case, X):
    G, meas = fc.elem_grad_and_measure(case["v"], case["t"])
    t = np.array(case["t"], dtype=int)
    d = np.zeros(len(case["v"]))
    contrib = -meas[:, None] * np.einsum("ec,eck->ek", X, G)
    np.add.at(d, t.reshape(-1), contrib.reshape(-1))
    return d


def oracle(case, out):
    V = []
    def bad(clause, detail, wc=None):
        V.append({"clause": clause, "detail": detail, "witness_class": wc})
    if "error" in out:
        bad("solver_constructs", out["error"] + ": " + out.get("error_msg", ""))
        return V
    p = np.array(case["v"], dtype=float)
    t = np.array(case["t"], dtype=int)
    f = np.array(case["f"], dtype=float)
    A = fc.dense(out["A"])
    G, meas = fc.elem_grad_and_measure(case["v"], case["t"])
    gf = np.einsum("eck,ek->ec", G, f[t])
    gn = np.linalg.norm(gf, axis=1)
    nonvanishing = gn.min() > 1e-9 * (gn.max() + 1e-300)
    X = gf / np.maximum(gn, 1e-300)[:, None]
    rhs = _indep_div(case, X)
    names = ["geo"] + (["geo2"] if case["kind"] == "tria" else [])
    for nm in names:
        g = out.get(nm)
        if isinstance(g, str):
            bad("geodesic_terminates_with_finite_function", f"{nm}: {g}", g.split(":")[0] + (":singular" if "singular" in g else ""))
            continue
        g = np.array(g)
        if not np.all(np.isfinite(g)):
            bad("geodesic_terminates_with_finite_function", f"{nm}: non-finite values", "nonfinite")
            continue
        if not nonvanishing:
            continue
        if g.min() != 0.0:
            bad("geodesic_minimum_is_zero", f"{nm}: min {g.min()}")
        res = A @ g - rhs
        sc = np.abs(A) @ np.abs(g - g.mean()) + np.abs(rhs).max() + 1e-300
        if (np.abs(res) / sc).max() > 5e-4:
            bad("geodesic_solves_A_g_eq_div_of_unit_gradient", f"{nm}: max relative residual {(np.abs(res) / sc).max()}",
                "small_amplitude" if case["amp"] < 1e-6 else None)
        if case["fkind"] == "affine" and case["flat"] and case["fdtype"] != "int64":
            a = np.array(case["a"])
            ref = -(f - f.max()) / np.linalg.norm(a)
            if np.abs(g - ref).max() > 2e-4 * (np.abs(ref).max() + 1e-300):
                bad("geodesic_exact_unit_slope_for_affine", f"{nm}: max diff {np.abs(g - ref).max()} (scale {np.abs(ref).max()})",
                    "small_amplitude" if case["amp"] < 1e-6 else None)
    if case["kind"] == "tria" and isinstance(out.get("geo"), list) and isinstance(out.get("geo2"), list):
        g1, g2 = np.array(out["geo"]), np.array(out["geo2"])
        if np.all(np.isfinite(g1)) and np.all(np.isfinite(g2)) and np.abs(g1 - g2).max() > 2e-4 * (np.abs(g2).max() + 1e-300):
            bad("generic_and_triangle_entry_points_agree", f"max diff {np.abs(g1 - g2).max()}")
    if case["kind"] == "tria":
        r = out.get("rot")
        if isinstance(r, str):
            bad("rotated_no_exception", r, r.split(":")[0])
        else:
            r = np.array(r)
            if not np.all(np.isfinite(r)):
                bad("rotated_finite", "non-finite")
            else:
                if r[0] != 0.0:
                    bad("rotated_is_zero_at_vertex_0", f"{r[0]}")
                if case["fkind"] == "affine" and case["flat"] and not case.get("flipped"):
                    gr = np.einsum("eck,ek->ec", G, r[t])
                    sc = gn.max() + 1e-300
                    if np.abs((gr * gf).sum(1)).max() > 3e-4 * sc * sc or np.abs(np.linalg.norm(gr, axis=1) - gn).max() > 3e-4 * sc:
                        bad("rotated_gradient_is_quarter_turn", f"dot {np.abs((gr * gf).sum(1)).max()} length diff {np.abs(np.linalg.norm(gr, axis=1) - gn).max()}",
                            "integer_f" if case["fdtype"] == "int64" else None)
    return V


def nontrivial(case, out):
    return "error" not in out and len(case["t"]) >= 4
