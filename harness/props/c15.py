"""C15  Vertex/triangle function transfer and smoothing are conservative averages."""
import numpy as np

from .. import core, gen_mesh as gm

ID = "C15"
LIMIT = 30.0
RULE = ("triangle meshes without unused vertices (grids, fans, annuli, polyhedra, tori, Delaunay, unions, books, Moebius; flips, "
        "relabelling, scales 1e-5..1e3) x scalar / 2- / 3-column functions of dtype float64, float32, int64, uint8, bool, including "
        "constants and very small amplitudes (1e-10) x weighted in {False,True} x n in 0..6; plus wrong-length inputs; plus one history per case on a single object (weighted map, then smooth_ / normalize_ / assignment to v, then weighted map of the constant 1 = vertex areas of the current surface). "
        "distinct = hash of the case; non-trivial = non-constant function on a mesh with non-uniform valence")
TRUSTED = ["np.add.at accumulation, sparse multiply broadcasting, sparse dot (modelled)"]
ASSUMPTIONS = ["integer / bool inputs are passed to the model as their float values (the code converts via float arithmetic)"]
EXHAUSTIVE = {"quick": False, "thorough": False}
SHARD_BYTES = 120_000

COQ_HEADER = """From Coq Require Import List PrimFloat String.
From LaPyV Require Import Base.Scalar Base.Vec3 Base.ListAux Base.Sparse Model.TetMesh Model.TriaAdj Model.TriaOrient Model.TriaGeom Model.TriaFunc Chk.Cmp Chk.C09 Chk.C15.
Import ListNotations. Open Scope float_scope."""
COQ_CHECK = "check_c15"
COQ_LABELS = ["map_tfunc_to_vfunc", "map_vfunc_to_tfunc", "smooth_vfunc", "smooth_"]


def _func(rng, n, ncol, dtype, kind):
    cols = []
    for _ in range(ncol):
        if kind == "const":
            c = [rng.choice([1.0, -2.5, 7.0])] * n
        elif kind == "tiny":
            c = [rng.uniform(-1, 1) * 1e-10 for _ in range(n)]
        else:
            c = [rng.uniform(-3, 3) for _ in range(n)]
        if dtype == "int64":
            c = [float(round(4 * x)) for x in c]
        elif dtype == "uint8":
            c = [float(int(abs(x) * 60) % 256) for x in c]
        elif dtype == "bool":
            c = [float(x > 0) for x in c]
        elif dtype == "float32":
            c = [float(np.float32(x)) for x in c]
        cols.append(c)
    return cols


def generate(rng, tier):
    cases = []
    n = 100 if tier == "quick" else 1000
    i = 0
    while len(cases) < n:
        fam = gm.TRIA_FAMILIES[i % len(gm.TRIA_FAMILIES)]
        i += 1
        v, t = gm.tria_family(fam, rng, small=True)
        if len(t) < 3 or len(v) > 36:
            continue
        v, t = gm.compact(v, t)
        if rng.random() < 0.3:
            t, _ = gm.flip_some(t, rng, 0.4)
        if rng.random() < 0.3:
            v, t, _ = gm.relabel(v, t, rng)
        if rng.random() < 0.2:
            v = (np.array(v) * rng.choice([1e-5, 1e-2, 1e3])).tolist()
        ncol = rng.choice([1, 1, 2, 3])
        dt = rng.choice(["float64", "float64", "float64", "float32", "int64", "uint8", "bool"])
        kind = rng.choice(["rand", "rand", "const", "tiny"])
        cases.append({"family": fam, "v": v, "t": t, "weighted": rng.random() < 0.5, "k": rng.choice([0, 1, 1, 2, 3, 6]),
                      "ncol": ncol, "dtype": dt, "kind": kind,
                      "tcols": _func(rng, len(t), ncol, dt, kind), "vcols": _func(rng, len(v), ncol, dt, kind),
                      "wrong_len": rng.random() < 0.08, "hist": rng.choice(["smooth", "normalize", "assign"])})
    return cases


def _arr(cols, dtype, wrong=False):
    a = np.array(cols, dtype=float).T
    if wrong:
        a = a[:-1]
    a = a.astype(dtype)
    return a[:, 0] if a.shape[1] == 1 else a


def _cols(a):
    a = np.asarray(a, dtype=float)
    if a.ndim == 1:
        return [a.tolist()]
    return a.T.tolist()


def run_impl(case):
    from lapy import TriaMesh
    out = {}
    v = np.array(case["v"], dtype=float)
    t = np.array(case["t"], dtype=int)
    m = TriaMesh(v.copy(), t.copy())
    tf = _arr(case["tcols"], case["dtype"], case["wrong_len"])
    vf = _arr(case["vcols"], case["dtype"], case["wrong_len"])
    tf0, vf0 = tf.copy(), vf.copy()
    for name, fn in (("t2v", lambda: m.map_tfunc_to_vfunc(tf, weighted=case["weighted"])),
                     ("v2t", lambda: m.map_vfunc_to_tfunc(vf)),
                     ("smooth", lambda: m.smooth_vfunc(vf, case["k"]))):
        try:
            out[name] = _cols(fn())
        except Exception as e:
            out[name] = core.errkind(e)
    out["inputs_untouched"] = bool(np.array_equal(tf, tf0) and np.array_equal(vf, vf0))
    # second call with the same arrays must give the same result (no hidden state, no writes into inputs)
    try:
        again = _cols(m.map_tfunc_to_vfunc(tf, weighted=case["weighted"]))
        out["t2v_repeatable"] = bool(isinstance(out["t2v"], list) and np.allclose(again, out["t2v"], rtol=0, atol=0))
    except Exception as e:
        out["t2v_repeatable"] = isinstance(out["t2v"], str)
    try:
        m2 = TriaMesh(v.copy(), t.copy())
        m2.smooth_(case["k"])
        out["smooth_mesh"] = np.asarray(m2.v, dtype=float).tolist()
        out["smooth_mesh_t_same"] = bool(np.array_equal(m2.t, t))
        # n applications of one operator: k single steps
        m3 = TriaMesh(v.copy(), t.copy())
        f = vf.astype(float) if not case["wrong_len"] else None
        if f is not None:
            g = f
            for _ in range(max(case["k"], 1)):
                g = m3.smooth_vfunc(g, 1)
            out["smooth_steps"] = _cols(g)
            out["smooth_scaled"] = _cols(m3.smooth_vfunc(f * 1e-10, case["k"]))
    except Exception as e:
        out["smooth_mesh"] = core.errkind(e)
    # history on one object: map (weighted), change the geometry in place, map again -- the second map must be that of the
    # current surface (the constant 1 maps to the vertex areas of the current surface)
    try:
        m4 = TriaMesh(v.copy(), t.copy())
        one = np.ones(len(t))
        m4.map_tfunc_to_vfunc(one, weighted=True)
        hist = case.get("hist", "smooth")
        if hist == "smooth":
            m4.smooth_(2)
        elif hist == "normalize":
            m4.normalize_()
        else:
            m4.v = m4.v * 3.0
        cur = np.asarray(m4.v, dtype=float)
        got = np.asarray(m4.map_tfunc_to_vfunc(one, weighted=True), dtype=float).ravel()
        ar = np.linalg.norm(np.cross(cur[t[:, 1]] - cur[t[:, 0]], cur[t[:, 2]] - cur[t[:, 0]]), axis=1) / 2
        ref = np.zeros(len(cur))
        np.add.at(ref, t.reshape(-1), np.repeat(ar / 3.0, 3))
        ext = float(np.abs(cur - cur.mean(0)).max())      # a book collapses onto its spine under smoothing: areas ~ rounding noise
        degenerate = np.abs(ref).max() < 1e-6 * ext * ext
        # tria_areas uses Heron's formula: on (nearly) degenerate triangles its absolute error is ~ sqrt(eps) * edge^2
        emax = max(float(np.linalg.norm(cur[t[:, i]] - cur[t[:, (i + 1) % 3]], axis=1).max()) for i in range(3))
        excess = float(np.abs(got - ref).max()) - 1e-7 * emax * emax
        out["hist_err"] = 0.0 if degenerate or excess <= 0 else excess / float(np.abs(ref).max())
    except Exception as e:
        out["hist_err"] = core.errkind(e)
    return out


def _res(x, f):
    if isinstance(x, str):
        return "(Err %s)" % {"ValueError": "ValueError", "IndexError": "IndexError"}.get(x, "OtherError")
    return f"(Ok {f(x)})"


def _ccols(c):
    return "[" + "; ".join(core.cflist(x) for x in c) + "]"


def coq_case(case, out):
    tol = "0x1.4f8b588e368f1p-17" if case["dtype"] == "float32" else "0x1.12e0be826d695p-30"
    tc = case["tcols"] if not case["wrong_len"] else [c[:-1] for c in case["tcols"]]
    vc = case["vcols"] if not case["wrong_len"] else [c[:-1] for c in case["vcols"]]
    return "(%s, %s, %s, %s, %d%%nat, %s, %s, (%s, %s, %s, %s))" % (
        tol, core.cv3list(case["v"]), core.ctuples(case["t"]), core.cbool(case["weighted"]), case["k"], _ccols(tc), _ccols(vc),
        _res(out["t2v"], _ccols), _res(out["v2t"], _ccols), _res(out["smooth"], _ccols), _res(out["smooth_mesh"], core.cv3list))


def oracle(case, out):
    V = []
    def bad(clause, detail, wc=None):
        V.append({"clause": clause, "detail": detail, "witness_class": wc})
    p = np.array(case["v"], dtype=float)
    t = np.array(case["t"], dtype=int)
    n, T = len(p), len(t)
    f32 = case["dtype"] == "float32"
    rt = 1e-5 if f32 else 1e-9
    if case["wrong_len"]:
        for k in ("t2v", "v2t", "smooth"):
            if out[k] != "ValueError":
                bad("wrong_length_raises_ValueError", f"{k}: {str(out[k])[:40]}")
        return V
    if not out["inputs_untouched"]:
        bad("inputs_not_modified", "a caller-owned array changed")
    if not out["t2v_repeatable"]:
        bad("map_tfunc_to_vfunc_repeatable", "second call with same input differs")
    he = out.get("hist_err", 0.0)
    if isinstance(he, str) or he > 1e-9:
        bad("weighted_map_uses_areas_of_the_current_surface", f"after {case.get('hist', 'smooth')} on the same object: {he}", "history")
    TF = np.array(case["tcols"]).T
    VF = np.array(case["vcols"]).T
    A = np.linalg.norm(np.cross(p[t[:, 1]] - p[t[:, 0]], p[t[:, 2]] - p[t[:, 0]]), axis=1) / 2
    if isinstance(out["t2v"], str):
        bad("map_tfunc_to_vfunc_no_exception", out["t2v"])
    else:
        R = np.array(out["t2v"]).T
        src = TF * A[:, None] if case["weighted"] else TF
        sc = np.abs(src).sum(0) + 1e-300
        if R.shape != (n, TF.shape[1]):
            bad("map_tfunc_to_vfunc_columnwise_shape", f"{R.shape}")
        else:
            if (np.abs(R.sum(0) - src.sum(0)) > max(rt, 1e-7 if case["weighted"] else rt) * sc).any():
                bad("map_tfunc_to_vfunc_conserves_totals", f"{R.sum(0).tolist()} vs {src.sum(0).tolist()}")
            ref = np.zeros((n, TF.shape[1]))
            for k in range(3):
                np.add.at(ref, t[:, k], src / 3)
            if (np.abs(R - ref).max(0) > max(rt, 1e-7 if case["weighted"] else rt) * (np.abs(ref).max(0) + 1e-300)).any():
                bad("map_tfunc_to_vfunc_is_third_to_each_corner", "differs from reference scatter")
            if case["kind"] == "const" and not case["weighted"]:
                c0 = TF[0]
                if (np.abs(R - c0[None, :]) > 1e-9 * (np.abs(c0) + 1)).any():
                    bad("map_tfunc_to_vfunc_constants_to_constants", "constant triangle function does not map to the same constant",
                        "nonuniform_valence")
    if isinstance(out["v2t"], str):
        bad("map_vfunc_to_tfunc_no_exception", out["v2t"])
    else:
        R = np.array(out["v2t"]).T
        ref = (VF[t[:, 0]] + VF[t[:, 1]] + VF[t[:, 2]]) / 3
        if R.shape != ref.shape or (np.abs(R - ref).max(0) > rt * (np.abs(ref).max(0) + 1e-300)).any():
            bad("map_vfunc_to_tfunc_is_corner_mean", "differs")
    if isinstance(out["smooth"], str):
        bad("smooth_vfunc_no_exception", out["smooth"])
    else:
        S = np.array(out["smooth"]).T
        nb = [set() for _ in range(n)]
        for r in t:
            for a, b in ((r[0], r[1]), (r[1], r[2]), (r[2], r[0])):
                nb[a].add(b)
                nb[b].add(a)
        W = np.zeros((n, n))
        for i in range(n):
            for j in nb[i]:
                W[i, j] = 1.0 / len(nb[i])
        ref = VF.copy()
        for _ in range(max(case["k"], 1)):
            ref = W @ ref
        amp = np.abs(VF).max(0) + 1e-300
        if S.shape != ref.shape or (np.abs(S - ref).max(0) > rt * amp).any():
            bad("smooth_vfunc_is_n_applications_of_neighbour_average", f"max diff {np.abs(S - ref).max()}")
        else:
            if (S.min(0) < VF.min(0) - rt * amp).any() or (S.max(0) > VF.max(0) + rt * amp).any():
                bad("smooth_vfunc_stays_in_range", "left [min f, max f]")
        if "smooth_steps" in out and (np.abs(np.array(out["smooth_steps"]).T - S).max(0) > rt * amp).any():
            bad("smooth_vfunc_n_equals_n_single_steps", "differs")
        if "smooth_scaled" in out and (np.abs(np.array(out["smooth_scaled"]).T - 1e-10 * S).max(0) > rt * 1e-10 * amp).any():
            bad("smooth_vfunc_linear", "smooth(c f) != c smooth(f)")
    if isinstance(out["smooth_mesh"], str):
        bad("smooth_mesh_no_exception", out["smooth_mesh"])
    else:
        if not out["smooth_mesh_t_same"]:
            bad("smooth_keeps_connectivity", "t changed")
    return V


def nontrivial(case, out):
    if case["wrong_len"] or case["kind"] == "const":
        return False
    cnt = {}
    for r in case["t"]:
        for i in r:
            cnt[i] = cnt.get(i, 0) + 1
    return len(set(cnt.values())) > 1
