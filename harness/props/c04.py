"""C04  ShapeDNA is invariant under isometry and relabelling and scales as 1/s^2."""
import numpy as np

from .. import core, femcommon as fc, gen_mesh as gm
from .c05 import components

ID = "C04"
LIMIT = 90.0
RULE = ("connected triangle meshes (closed: polyhedra, tori, ellipsoids, some with flipped triangles; open: grids, Delaunay) and tet "
        "meshes (oriented, mirrored i.e. uniformly negative, mixed), all vertices used x k in 2..6 x lump; each with transformed copies: "
        "rotation+translation, translation by 1e5 diameters (spectrum and all three normalisations), reflection, vertex relabelling, element reordering, cyclic rotation, global flip (triangles), scaling "
        "s in {0.37, 2.5, 40, 1e-6, 3e-7, 1e3} (small and large length units); plus a second compute_shapedna on the SAME object after scaling its vertices in place. distinct = hash of "
        "the case; non-trivial = k >= 3")
TRUSTED = ["ARPACK is an oracle (C03); float power vol ** (2/3) is certified by cubing inside Coq"]
ASSUMPTIONS = ["spectra compared at 1e-6 relative to the largest requested eigenvalue"]
EXHAUSTIVE = {"quick": False, "thorough": False}
SHARD_BYTES = 100_000

COQ_HEADER = """From Coq Require Import List PrimFloat String.
From LaPyV Require Import Base.Scalar Base.Vec3 Base.ListAux Base.Sparse Model.TetMesh Model.TriaAdj Model.TriaOrient Model.Fem Model.TriaGeom Model.ShapeDNA Chk.Cmp Chk.C09 Chk.C05 Chk.C04.
Import ListNotations. Open Scope float_scope."""
COQ_CHECK = "check_c04"
COQ_LABELS = ["dictionary", "normalize_surface", "normalize_volume", "normalize_geometry", "reweight_ev", "compute_distance"]


def generate(rng, tier):
    cases = []
    nt, nq = (28, 14) if tier == "quick" else (250, 120)
    fams = ["tetra", "octa", "cube", "ico", "torus", "ellipsoid", "gridh", "delaunay", "grid"]
    i = 0
    while len([c for c in cases if c["kind"] == "tria"]) < nt:
        fam = fams[i % len(fams)]
        i += 1
        v, t = gm.tria_family(fam, rng, small=True)
        v, t = gm.compact(v, t)
        if len(t) < 4 or len(v) > 32 or len(v) < 6 or len(components(len(v), t)) != 1 or fc.min_tria_quality(v, t) < 0.1:
            continue
        if fam in ("tetra", "octa", "cube", "ico"):
            v = gm.jitter(v, rng, 0.12)      # break symmetry: simple eigenvalues
        flipped = rng.random() < 0.3
        if flipped:
            t, _ = gm.flip_some(t, rng, 0.3)
        cases.append({"kind": "tria", "family": fam, "v": v, "t": t, "unoriented": flipped})
    j = 0
    while len([c for c in cases if c["kind"] == "tet"]) < nq:
        fam = ["kuhn", "delaunay", "kuhn"][j % 3]
        j += 1
        v, t = gm.tet_family(fam, rng, small=True)
        v, t = gm.compact(v, t)
        if len(v) > 24 or len(v) < 6 or len(components(len(v), t)) != 1:
            continue
        t = gm.orient_tets(v, t)
        mode = rng.choice(["oriented", "mirrored", "mixed"])
        if mode == "mirrored":
            t = [[r[0], r[2], r[1], r[3]] for r in t]
        elif mode == "mixed":
            t, _ = gm.flip_some(t, rng, 0.5)
        cases.append({"kind": "tet", "family": "tet_" + fam + "_" + mode, "v": v, "t": t, "unoriented": mode != "oriented"})
    # very small tetra meshes (1-3 elements, fewer elements than vertices): the dictionary must still report the true counts
    for nt_ in (1, 2, 3):
        v = [[0.0, 0.0, 0.0], [1.0, 0.1, 0.0], [0.2, 1.1, 0.1], [0.1, 0.2, 0.9], [1.2, 1.0, 1.1], [-0.8, 0.3, 0.6]]
        t = [[0, 1, 2, 3], [1, 2, 3, 4], [0, 2, 3, 5]][:nt_]
        v2, t2 = gm.compact(v, t)
        cases.append({"kind": "tet", "family": f"tet_tiny{nt_}", "v": v2, "t": gm.orient_tets(v2, t2), "unoriented": False})
    for c in cases:
        n = len(c["v"])
        c.update({"k": rng.randint(2, max(2, min(6, n - 2))), "lump": rng.random() < 0.5, "vdtype": "float64", "tdtype": "int64",
                  "tseed": rng.randrange(1 << 30), "scale": rng.choice([0.37, 2.5, 40.0, 1e-6, 3e-7, 1e3]),
                  "other": [rng.uniform(0, 5) for _ in range(6)]})
    return cases


def _ev(mesh, case):
    from lapy import shapedna
    d = shapedna.compute_shapedna(mesh, k=case["k"], lump=case["lump"])
    return d


def run_impl(case):
    import random
    from lapy import TetMesh, TriaMesh, shapedna
    out = {}
    cls = TriaMesh if case["kind"] == "tria" else TetMesh
    try:
        v = np.array(case["v"], dtype=float)
        t = np.array(case["t"], dtype=int)
        m = cls(v.copy(), t.copy())
        d = _ev(m, case)
        ev = np.asarray(d["Eigenvalues"], dtype=float)
        out["ev"] = ev.tolist()
        out["fields"] = [int(d.get("Dimension", -1)), int(d["Elements"]), int(d["DoF"]), int(d["NumEW"])]
        out["evec_shape"] = list(np.asarray(d["Eigenvectors"]).shape)
        out["mesh_untouched"] = bool(np.array_equal(np.array(m.v), v) and np.array_equal(np.array(m.t), t))
        r = random.Random(case["tseed"])
        var = {}
        vt, q, _s, b = gm.similarity(v.tolist(), r, reflect=False, scale=1.0)
        var["rigid"] = (vt, t.tolist())
        vt2, q2, _s2, b2 = gm.similarity(v.tolist(), r, reflect=True, scale=1.0)
        var["reflected"] = (vt2, t.tolist())
        vr, tr, perm = gm.relabel(v.tolist(), t.tolist(), r)
        var["relabelled"] = (vr, tr)
        tre, _ = gm.reorder(t.tolist(), r)
        var["reordered"] = (v.tolist(), tre)
        if case["kind"] == "tria":
            var["rotated_rows"] = (v.tolist(), gm.rotate_rows(t.tolist(), r))
            var["all_flipped"] = (v.tolist(), [[x[0], x[2], x[1]] for x in t.tolist()])
        s = case["scale"]
        var["scaled"] = ((v * s).tolist(), t.tolist())
        # world coordinates: the same mesh 1e5 diameters away from the origin
        dfar = np.array([r.gauss(0, 1) for _ in range(3)])
        vfar = v + dfar / np.linalg.norm(dfar) * (np.abs(v - v.mean(0)).max() + 1e-300) * 1e5
        var["far_translated"] = (vfar.tolist(), t.tolist())
        evs = {}
        for name, (vv, tt) in var.items():
            evs[name] = np.asarray(_ev(cls(np.array(vv), np.array(tt)), case)["Eigenvalues"], dtype=float).tolist()
        out["variants"] = evs
        # history: scale the vertices of the SAME object in place and recompute
        m.v = m.v * s
        out["inplace_scaled"] = np.asarray(_ev(m, case)["Eigenvalues"], dtype=float).tolist()
        # normalisation / reweighting / distance on the original and on the scaled copy
        m0 = cls(v.copy(), t.copy())
        ms = cls(v.copy() * s, t.copy())
        evs_s = np.array(evs["scaled"])
        for meth in ("surface", "volume", "geometry"):
            for tag, mm, ee in (("", m0, ev), ("_scaled", ms, evs_s), ("_far", cls(vfar.copy(), t.copy()), np.array(evs["far_translated"]))):
                tb = np.array(mm.t).copy()
                try:
                    out["norm_" + meth + tag] = np.asarray(shapedna.normalize_ev(mm, ee.copy(), method=meth), dtype=float).tolist()
                except Exception as e:
                    out["norm_" + meth + tag] = core.errkind(e)
                if not np.array_equal(np.array(mm.t), tb):
                    out["normalize_mutated"] = meth
        out["reweight"] = np.asarray(shapedna.reweight_ev(ev.copy()), dtype=float).tolist()
        oth = np.array(case["other"][: len(ev)])
        out["dist"] = float(shapedna.compute_distance(ev, oth))
        out["dist_sym"] = float(shapedna.compute_distance(oth, ev))
        out["dist_self"] = float(shapedna.compute_distance(ev, ev.copy()))
        # two spectra that differ in the eighth digit are different: the distance is their (small) Euclidean distance, not 0
        near = ev.copy()
        near[-1] = near[-1] * (1 + 1e-8) + 1e-300
        out["dist_near"] = [float(shapedna.compute_distance(ev, near)), float(shapedna.compute_distance(near, ev)), float(abs(near[-1] - ev[-1]))]
    except Exception as e:
        out["error"] = core.errkind(e)
        out["error_msg"] = str(e)[:300]
    return out


def _factor(evals, outl):
    if isinstance(outl, str):
        return 0.0
    e, o = np.array(evals), np.array(outl)
    k = int(np.argmax(np.abs(e)))
    return float(o[k] / e[k]) if e[k] != 0 else 0.0


def _res(x):
    if isinstance(x, str):
        return "(Err %s)" % {"ValueError": "ValueError", "IndexError": "IndexError"}.get(x, "OtherError")
    return f"(Ok {core.cflist(x)})"


def coq_case(case, out):
    if "error" in out:
        return None
    for meth in ("surface", "volume", "geometry"):
        r = out["norm_" + meth]
        if not isinstance(r, str) and not np.all(np.isfinite(r)):
            return None
    mesh = ("(MTria %s %s)" if case["kind"] == "tria" else "(MTet %s %s)") % (core.cv3list(case["v"]), core.ctuples(case["t"]))
    ev = out["ev"]
    f = out["fields"]
    parts = []
    for meth in ("surface", "volume", "geometry"):
        r = out["norm_" + meth]
        parts.append(f"({_res(r)}, {core.cfloat(_factor(ev, r))})")
    return "(%s, %s, %s, (%d%%nat, %d%%nat, %d%%nat, %d%%nat), %s, %s, %s, %s, (%s, %s))" % (
        "0x1.0c6f7a0b5ed8dp-20", mesh, core.cflist(ev), max(f[0], 0), f[1], f[2], f[3], parts[0], parts[1], parts[2],
        core.cflist(out["reweight"]), core.cflist(case["other"][: len(ev)]), core.cfloat(out["dist"]))


def oracle(case, out):
    V = []
    def bad(clause, detail, wc=None):
        V.append({"clause": clause, "detail": detail, "witness_class": wc})
    if "error" in out:
        bad("shapedna_no_exception", out["error"] + ": " + out.get("error_msg", ""), out["error"])
        return V
    ev = np.array(out["ev"])
    k = case["k"]
    sc = np.abs(ev).max() + 1e-300
    n, T = len(case["v"]), len(case["t"])
    dim = 2 if case["kind"] == "tria" else 3
    if out["fields"] != [dim, T, n, k] or len(ev) != k or out["evec_shape"] != [n, k]:
        bad("dictionary_reports_true_counts", f"{out['fields']} vs {[dim, T, n, k]}, shapes {len(ev)}, {out['evec_shape']}")
    if not out["mesh_untouched"]:
        bad("compute_shapedna_keeps_mesh", "v/t changed")
    s = case["scale"]
    for name, e2 in out["variants"].items():
        e2 = np.array(e2)
        target = ev / s ** 2 if name == "scaled" else ev
        if np.abs(e2 - target).max() > 2e-6 * (np.abs(target).max() + 1e-300):
            bad("spectrum_scales_as_s_to_minus_2" if name == "scaled" else "spectrum_invariant_under_" + name,
                f"max diff {np.abs(e2 - target).max()} (scale {np.abs(target).max()})")
    e3 = np.array(out["inplace_scaled"])
    if np.abs(e3 - ev / s ** 2).max() > 2e-6 * (sc / s ** 2):
        bad("spectrum_of_reused_object_after_inplace_scaling", f"max diff {np.abs(e3 - ev / s ** 2).max()}", "history")
    if "normalize_mutated" in out:
        bad("normalize_ev_keeps_mesh", out["normalize_mutated"])
    # normalisation: value and agreement of scaled copies
    p = np.array(case["v"])
    t = np.array(case["t"])
    if case["kind"] == "tria":
        area = float((np.linalg.norm(np.cross(p[t[:, 1]] - p[t[:, 0]], p[t[:, 2]] - p[t[:, 0]]), axis=1) / 2).sum())
        for meth in ("surface", "geometry"):
            r = out["norm_" + meth]
            if isinstance(r, str) or np.abs(np.array(r) - ev * area).max() > 1e-8 * sc * area:
                bad("normalize_ev_multiplies_by_area", f"{meth}: {str(r)[:60]}")
    else:
        vol = float(np.abs(np.einsum("ij,ij->i", p[t[:, 3]] - p[t[:, 0]], np.cross(p[t[:, 1]] - p[t[:, 0]], p[t[:, 2]] - p[t[:, 0]]))).sum() / 6)
        for meth in ("volume", "geometry"):
            r = out["norm_" + meth]
            if isinstance(r, str) or not np.all(np.isfinite(r)) or np.abs(np.array(r) - ev * vol ** (2 / 3)).max() > 1e-7 * sc * vol ** (2 / 3):
                bad("normalize_ev_multiplies_by_volume_to_two_thirds", f"{meth}: {str(r)[:80]} expected factor {vol ** (2 / 3)}",
                    "mirrored" if "mirrored" in case["family"] else None)
    for meth in ("surface", "volume", "geometry"):
        for tag, clause in (("_scaled", "normalised_spectra_of_scaled_copies_coincide"),
                            ("_far", "normalised_spectra_of_translated_copies_coincide")):
            a, b = out["norm_" + meth], out["norm_" + meth + tag]
            if isinstance(a, str) or isinstance(b, str):
                if a != b:
                    bad(clause, f"{meth}: {str(a)[:40]} vs {str(b)[:40]}")
                continue
            a, b = np.array(a), np.array(b)
            if np.all(np.isfinite(a)) and np.abs(a - b).max() > 5e-6 * (np.abs(a).max() + 1e-300):
                bad(clause, f"{meth}: max diff {np.abs(a - b).max()}")
    rw = np.array(out["reweight"])
    if np.abs(rw - ev / np.arange(1, k + 1)).max() > 1e-12 * sc:
        bad("reweight_ev_divides_ith_value_by_i", "differs")
    oth = np.array(case["other"][:k])
    if abs(out["dist"] - np.sqrt(((ev - oth) ** 2).sum())) > 1e-9 * (1 + out["dist"]) or out["dist"] != out["dist_sym"] or out["dist_self"] != 0.0:
        bad("compute_distance_is_euclidean_metric", f"{out['dist']} {out['dist_sym']} {out['dist_self']}")
    dn = out.get("dist_near")
    if dn is not None and dn[2] > 0 and (abs(dn[0] - dn[2]) > 1e-6 * dn[2] or dn[0] != dn[1]):
        bad("compute_distance_is_euclidean_metric", f"nearly equal spectra: {dn[0]} / {dn[1]} instead of {dn[2]}")
    return V


def nontrivial(case, out):
    return "error" not in out and case["k"] >= 3
