"""C12  Tetra orientation and boundary extraction are exact."""
import itertools

import numpy as np

from .. import core, gen_mesh as gm

ID = "C12"
LIMIT = 20.0
RULE = ("tet meshes from Kuhn boxes (jittered), 3-D Delaunay fills, single tets and arbitrary sub-collections "
        "(cavities, several components, face/edge-only contacts), each with a random flip pattern, optional unused "
        "vertex; thorough adds every subset x flip pattern of the 6-tet Kuhn cube. distinct = hash of (v,t); "
        "non-trivial = at least 2 tets, or a flipped tet")
TRUSTED = ["numpy semantics of np.unique(axis=0,return_index,return_counts), np.sort(axis=1), fancy indexing (modelled)"]
ASSUMPTIONS = ["float model evaluates tet volumes in numpy's operation order; sign decisions on |6V| < 1e-12 are not generated"]
EXHAUSTIVE = {"quick": False, "thorough": False}

COQ_HEADER = """From Coq Require Import List PrimFloat ZArith String.
From LaPyV Require Import Base.Scalar Base.Vec3 Base.ListAux Model.TetMesh Chk.Cmp Chk.C12.
Import ListNotations. Open Scope float_scope."""
COQ_CHECK = "check_c12"
COQ_LABELS = ["is_oriented", "orient_t", "orient_count", "is_oriented_after", "boundary_t", "boundary_owner",
              "boundary_oriented_t"]


def generate(rng, tier):
    cases = []
    n = 120 if tier == "quick" else 1500
    fams = ["kuhn", "delaunay", "single", "subset", "subset"]
    for i in range(n):
        fam = fams[i % len(fams)]
        v, t = gm.tet_family(fam, rng, small=(tier == "quick" or i % 3 != 0))
        if len(t) > 60:
            continue
        p = rng.choice([0.0, 0.0, 0.3, 0.5, 1.0])
        t, _ = gm.flip_some(t, rng, p)
        if rng.random() < 0.25:
            t, _ = gm.reorder(t, rng)
        if rng.random() < 0.2 and len(v) >= 4:
            v, t = gm.add_unused(v, t, rng)
        if rng.random() < 0.3:
            v, t, _ = gm.relabel(v, t, rng)
        if rng.random() < 0.2:
            sc = rng.choice([1e-6, 1e-3, 1e3])     # micrometre-sized domains etc.
            v = (np.array(v) * sc).tolist()
            fam += "_scaled"
        cases.append({"family": fam, "v": v, "t": t, "tdtype": rng.choice(["int64", "int32"])})
    # exactly flat tetrahedra (integer coordinates, four coplanar vertices): "all signed volumes positive" must fail on them
    for k in range(10 if tier == "quick" else 60):
        v, t0 = gm.kuhn_box(1, rng.choice([1, 2]), 1)
        t0 = [list(r) for r in gm.orient_tets(v, t0)]
        P = np.array(v)
        flat = None
        for _try in range(200):
            q = rng.sample(range(len(v)), 4)
            if abs(gm.tet_vol6(v, q)) == 0 and len({tuple(P[i]) for i in q}) == 4:
                flat = q
                break
        if flat is None:
            continue
        keep = [r for r in t0 if rng.random() < 0.7] or t0[:1]
        mode = k % 3
        if mode == 1:
            keep, _ = gm.flip_some(keep, rng, 0.4)
        tt = keep + [flat] if mode != 2 else [flat] + keep
        cases.append({"family": "flat_tet_" + ["oriented", "mixed", "oriented_first"][mode], "v": v, "t": tt, "tdtype": "int64"})
    # large int32 meshes (implementation + oracles only; too large to evaluate inside Coq)
    for npts in ([2048, 4096] if tier == "quick" else [1500, 2048, 3000, 4096, 8192]):
        cases.append({"family": "large_delaunay_int32", "tdtype": "int32",
                      "gen": {"npts": npts, "seed": rng.randrange(1 << 30), "keep": 0.5, "flip": 0.3,
                              "scale": rng.choice([1.0, 1e-5])}})
    if tier == "thorough":
        v, t0 = gm.kuhn_box(1, 1, 1)
        t0 = gm.orient_tets(v, t0)
        for mask in range(1, 64):
            sub = [t0[i] for i in range(6) if mask >> i & 1]
            for fl in range(1 << len(sub)):
                if len(sub) > 3 and rng.random() < 0.7:
                    continue
                tt = [[r[0], r[2], r[1], r[3]] if fl >> k & 1 else list(r) for k, r in enumerate(sub)]
                cases.append({"family": "kuhn_subset_exhaustive", "v": v, "t": tt})
    return cases


_CACHE = {}


def _mesh(case):
    """(v, t) of a case; large meshes are stored as generator parameters only."""
    if "gen" not in case:
        return case["v"], case["t"]
    key = core.case_hash(case["gen"])
    if key not in _CACHE:
        import random
        from scipy.spatial import Delaunay
        g = case["gen"]
        r = random.Random(g["seed"])
        pts = np.array([[r.random(), r.random(), r.random()] for _ in range(g["npts"])])
        d = Delaunay(pts)
        t = d.simplices
        vol = np.einsum("ij,ij->i", pts[t[:, 3]] - pts[t[:, 0]], np.cross(pts[t[:, 1]] - pts[t[:, 0]], pts[t[:, 2]] - pts[t[:, 0]]))
        t = t[np.abs(vol) > 1e-9]
        vol = vol[np.abs(vol) > 1e-9]
        t[vol < 0] = t[vol < 0][:, [0, 2, 1, 3]]
        keep = np.array([r.random() < g["keep"] for _ in range(len(t))])
        t = t[keep]
        fl = np.array([r.random() < g["flip"] for _ in range(len(t))])
        t[fl] = t[fl][:, [0, 2, 1, 3]]
        _CACHE.clear()
        _CACHE[key] = ((pts * g.get("scale", 1.0)).tolist(), t.tolist())
    return _CACHE[key]


def run_impl(case):
    from lapy import TetMesh
    v_, t_ = _mesh(case)
    v = np.array(v_, dtype=float)
    t = np.array(t_, dtype=case.get("tdtype", "int64"))
    out = {}
    try:
        m = TetMesh(v.copy(), t.copy())
        out["is_oriented"] = bool(m.is_oriented())
        b = m.boundary_tria(np.arange(len(t), dtype=float))
        out["boundary_t"] = b[0].t.tolist()
        out["boundary_owner"] = [int(x) for x in b[1]]
        out["boundary_v_same"] = bool(np.array_equal(b[0].v, v))
        # other forms of the per-tetra function: integer, boolean, several columns (e.g. centroids), a Python list
        forms = {}
        idx = np.arange(len(t))
        for name, tf in (("int", idx.astype(np.int64) * 3), ("bool", idx % 2 == 0),
                         ("cols3", np.stack([idx * 1.0, idx * 10.0 + 1, -idx * 1.0], axis=1)), ("list", [float(i) for i in idx])):
            try:
                bb = m.boundary_tria(tf)
                got = np.asarray(bb[1])
                ref = np.asarray(tf)[np.array(out["boundary_owner"], dtype=int)] if len(out["boundary_owner"]) else np.asarray(tf)[:0]
                forms[name] = bool(got.shape == ref.shape and np.array_equal(got, ref))
            except Exception as e:
                forms[name] = core.errkind(e)
        out["func_forms"] = forms
        m2 = TetMesh(v.copy(), t.copy())
        r = m2.orient_()
        out["orient_count"] = int(r)
        out["orient_t"] = m2.t.tolist()
        out["orient_v_same"] = bool(np.array_equal(m2.v, v))
        out["is_oriented_after"] = bool(m2.is_oriented())
        bo = m2.boundary_tria()
        out["bo_t"] = bo.t.tolist()
        out["bo_closed"] = bool(bo.is_closed())
        out["bo_manifold"] = bool(bo.is_manifold())
        out["bo_oriented"] = bool(bo.is_oriented())
        out["bo_volume"] = float(bo.volume()) if (bo.is_oriented() or not bo.is_closed()) else None
    except Exception as e:
        out["error"] = core.errkind(e)
        out["error_msg"] = str(e)[:200]
    return out


def coq_case(case, out):
    if "error" in out or "gen" in case:
        return None
    return "(%s, %s, (%s, %s, %s, %s), (%s, %s, %s))" % (
        core.cv3list(case["v"]), core.ctuples(case["t"]),
        core.cbool(out["is_oriented"]), core.ctuples(out["orient_t"]), core.cnat(out["orient_count"]),
        core.cbool(out["is_oriented_after"]),
        core.ctuples(out["boundary_t"]), core.cnlist(out["boundary_owner"]), core.ctuples(out["bo_t"]))


def _vols(v, t):
    p = np.array(v, dtype=float)
    t = np.array(t, dtype=int)
    return np.einsum("ij,ij->i", p[t[:, 3]] - p[t[:, 0]], np.cross(p[t[:, 1]] - p[t[:, 0]], p[t[:, 2]] - p[t[:, 0]]))


def oracle(case, out):
    V = []
    def bad(clause, detail, wc=None):
        V.append({"clause": clause, "detail": detail, "witness_class": wc})
    if "error" in out:
        bad("no_exception", out["error"] + ": " + out.get("error_msg", ""))
        return V
    v, t = _mesh(case)
    vol = _vols(v, t)
    if out["is_oriented"] != bool(np.all(vol > 0)):
        bad("is_oriented_iff_all_positive", f"is_oriented={out['is_oriented']} vols={vol.tolist()}")
    # orient_
    tn = out["orient_t"]
    if len(tn) != len(t) or any(sorted(a) != sorted(b) for a, b in zip(tn, t)):
        bad("orient_keeps_vertex_sets_and_order", "sets/order changed")
    if not out["orient_v_same"]:
        bad("orient_keeps_coordinates", "v changed")
    nneg = int(np.sum(vol < 0))
    if out["orient_count"] != nneg:
        bad("orient_returns_number_of_negative", f"returned {out['orient_count']} expected {nneg}")
    changed = [list(a) != list(b) for a, b in zip(tn, t)]
    if [bool(x) for x in (vol < 0)] != changed:
        bad("orient_swaps_exactly_negative", "changed rows differ from negative tets")
    for a, b, ch in zip(tn, t, changed):
        if ch and not (sum(1 for x, y in zip(a, b) if x != y) == 2):
            bad("orient_swaps_two_vertices", f"{b}->{a}")
    if np.all(vol != 0):
        if not out["is_oriented_after"]:
            bad("orient_result_is_oriented", "is_oriented false after orient_")
        if not np.all(_vols(v, tn) > 0):
            bad("orient_result_all_positive", "negative volume after orient_")
    # boundary (as given)
    cnt = {}
    for k, r in enumerate(t):
        for f in itertools.combinations(r, 3):
            cnt.setdefault(frozenset(f), []).append(k)
    expect = {f for f, ks in cnt.items() if len(ks) == 1}
    got = [frozenset(f) for f in out["boundary_t"]]
    if set(got) != expect or len(got) != len(expect):
        bad("boundary_exactly_faces_in_one_tet", f"got {len(got)} faces, expected {len(expect)}")
    if not out["boundary_v_same"]:
        bad("boundary_keeps_vertex_array", "v differs")
    for name, ok in out.get("func_forms", {}).items():
        if ok is not True and not (name == "list" and isinstance(ok, str)):      # a plain list need not be accepted, but must not be mangled
            bad("boundary_function_from_owner", f"per-tetra function given as {name}: {ok}", "func_form_" + name)
    for f, owner in zip(out["boundary_t"], out["boundary_owner"]):
        if not (0 <= owner < len(t)) or not set(f) <= set(t[owner]):
            bad("boundary_function_from_owner", f"face {f} owner {owner}")
            break
    # oriented mesh: closed, oriented where manifold, volume
    if np.all(vol != 0):
        if not out["bo_closed"]:
            bad("oriented_boundary_closed", "boundary has an edge in exactly one triangle")
        if out["bo_manifold"] and not out["bo_oriented"]:
            bad("oriented_boundary_consistently_oriented", "edge-manifold boundary is not oriented")
        p = np.array(v, dtype=float)
        f = np.array(out["bo_t"], dtype=int)
        myvol = float(np.sum(np.einsum("ij,ij->i", p[f[:, 0]], np.cross(p[f[:, 1]], p[f[:, 2]]))) / 6.0)
        tot = float(np.sum(np.abs(vol)) / 6.0)
        if abs(myvol - tot) > 1e-9 * tot:
            bad("oriented_boundary_encloses_total_volume", f"surface {myvol} vs tets {tot}")
        if out["bo_volume"] is not None and out["bo_closed"] and abs(out["bo_volume"] - tot) > 1e-9 * tot:
            bad("oriented_boundary_volume_method", f"volume() {out['bo_volume']} vs tets {tot}")
    return V


def nontrivial(case, out):
    return "error" not in out and ("gen" in case or len(case["t"]) >= 2 or out.get("orient_count", 0) > 0)
