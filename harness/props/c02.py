"""C02  Mass matrix is the exact piecewise-linear L2 inner product."""
import numpy as np

from .. import core, femcommon as fc, gen_mesh as gm

ID = "C02"
LIMIT = 30.0
RULE = ("meshes as in C01 (all vertices used, non-degenerate; tria + tet; float32/float64; flips, reorderings, relabellings, "
        "similarity transforms incl. small/large scales and multi-scale unions) x lump x entry point {Solver.mass, fem_tria_mass}. "
        "distinct = hash of the case; non-trivial = >= 2 elements and >= 1 vertex of valence >= 2")
TRUSTED = ["scipy csc_matrix duplicate summation (modelled as triplet lists)"]
ASSUMPTIONS = ["float32 vertex input compared at 2e-4"]
EXHAUSTIVE = {"quick": False, "thorough": False}
SHARD_BYTES = 120_000

COQ_HEADER = """From Coq Require Import List PrimFloat ZArith String.
From LaPyV Require Import Base.Scalar Base.Vec3 Base.ListAux Base.Sparse Model.TetMesh Model.Fem Chk.Cmp Chk.Fem.
Import ListNotations. Open Scope float_scope."""
COQ_CHECK = "check_fem"
COQ_LABELS = ["A_values", "A_support", "A_dim", "B_values", "B_support", "B_dim"]


def generate(rng, tier):
    nt, nq = (60, 30) if tier == "quick" else (500, 250)
    cases = fc.fem_mesh_cases(rng, tier, nt, nq, far=True)
    # a two-sided sheet: every triangle of a patch listed twice, the second time with the opposite winding (both faces carry
    # stiffness and mass; the mesh is closed and edge-manifold in the sense of C09)
    v, t = gm.grid(2, 2, rng, "smooth", "alt")
    cases.append({"kind": "tria", "family": "two_sided_sheet", "v": v, "t": [list(r) for r in t] + [[r[0], r[2], r[1]] for r in t],
                  "lump": False, "vdtype": "float64", "tdtype": "int64"})
    # a surface patch in nanometre units (coordinates ~1e-9, 4 * area ~1e-18, far below the machine epsilon: finding F27)
    for k in range(2):
        v, t = gm.grid(3, 2, rng, "smooth", "alt")
        cases.append({"kind": "tria", "family": "nano_tria", "v": (np.array(v, dtype=float) * 1e-9).tolist(), "t": t,
                      "lump": bool(k), "vdtype": "float64", "tdtype": "int64"})
    # strips of flat "cap" triangles (base 0.3, height h): valid, far from round-off, but with an obtuse angle close to 180 degrees
    for _ in range(6 if tier == "quick" else 40):
        N = rng.randint(2, 8)
        h, w = rng.choice([1e-3, 1e-5, 1e-6]), rng.choice([0.3, 1.0])
        v = [[w * k, 0.0, 0.0] for k in range(N + 1)] + [[w * (k + 0.5), h, 0.0] for k in range(N)]
        t = []
        for k in range(N):
            t.append([k, k + 1, N + 1 + k])
            if k + 1 < N:
                t.append([N + 1 + k, k + 1, N + 2 + k])
        if len(t) < 3:
            continue
        if rng.random() < 0.5:
            v, _, _, _ = gm.similarity(v, rng, scale=1.0)
        cases.append({"kind": "tria", "family": "cap_strip", "v": v, "t": t, "lump": rng.random() < 0.5, "vdtype": "float64", "tdtype": "int64"})
    for k, c in enumerate(cases):
        n = len(c["v"])
        c["x"] = [rng.uniform(-1, 1) for _ in range(n)]
        c["y"] = [rng.uniform(-1, 1) for _ in range(n)]
        c["entry"] = "fem_tria_mass" if (c["kind"] == "tria" and k % 2 == 0) else "solver"
    return cases


def run_impl(case):
    from lapy import Solver
    out = {}
    try:
        mesh = fc.build_mesh(case)
        for lump in (False, True):
            s = Solver(mesh, lump=lump)
            out[f"B_{int(lump)}"] = fc.coo_of(s.mass)
            if lump == case["lump"]:
                out["A"] = fc.coo_of(s.stiffness)
            if case["kind"] == "tria":
                out[f"M_{int(lump)}"] = fc.coo_of(Solver.fem_tria_mass(mesh, lump=lump))
    except Exception as e:
        out["error"] = core.errkind(e)
        out["error_msg"] = str(e)[:300]
    return out


def coq_case(case, out):
    if "error" in out:
        return None
    f32 = case["vdtype"] == "float32"
    tol = "0x1.a36e2eb1c432dp-13" if f32 else "0x1.12e0be826d695p-30"
    L = int(case["lump"])
    B = out[f"B_{L}"]
    dim = B["shape"][0]
    if case["entry"] == "fem_tria_mass":
        return "(MassCase %s %s %s %s %s %d%%nat)" % (tol, core.cv3list(case["v"]), core.ctuples(case["t"]),
                                                     core.cbool(case["lump"]), fc.ccoo(out[f"M_{L}"]), dim)
    ctor = "TriaCase" if case["kind"] == "tria" else "TetCase"
    return "(%s %s %s %s %s %s %s %d%%nat)" % (ctor, tol, core.cv3list(case["v"]), core.ctuples(case["t"]),
                                             core.cbool(case["lump"]), fc.ccoo(out["A"]), fc.ccoo(B), dim)


def exact_l2(v, t, x, y):
    """Integral of the product of the PL interpolants by a degree-2 exact quadrature
    (edge midpoints for triangles, 4-point rule for tets) - independent of the code's weights."""
    p = np.array(v, dtype=float)
    t = np.array(t, dtype=int)
    x, y = np.array(x), np.array(y)
    tot = 0.0
    if t.shape[1] == 3:
        for r in t:
            P = p[r]
            a = np.linalg.norm(np.cross(P[1] - P[0], P[2] - P[0])) / 2
            xs, ys = x[r], y[r]
            s = 0.0
            for i, j in ((0, 1), (1, 2), (2, 0)):
                s += (xs[i] + xs[j]) / 2 * (ys[i] + ys[j]) / 2
            tot += a / 3 * s
    else:
        a_, b_ = 0.5854101966249685, 0.1381966011250105
        for r in t:
            P = p[r]
            vol = abs(np.linalg.det(np.stack([P[1] - P[0], P[2] - P[0], P[3] - P[0]]))) / 6
            xs, ys = x[r], y[r]
            s = 0.0
            for k in range(4):
                w = np.full(4, b_)
                w[k] = a_
                s += (w @ xs) * (w @ ys)
            tot += vol / 4 * s
    return tot


def measures(v, t):
    p = np.array(v, dtype=float)
    t = np.array(t, dtype=int)
    if t.shape[1] == 3:
        return np.linalg.norm(np.cross(p[t[:, 1]] - p[t[:, 0]], p[t[:, 2]] - p[t[:, 0]]), axis=1) / 2
    return np.abs(np.einsum("ij,ij->i", p[t[:, 3]] - p[t[:, 0]], np.cross(p[t[:, 1]] - p[t[:, 0]], p[t[:, 2]] - p[t[:, 0]]))) / 6


def oracle(case, out):
    V = []
    def bad(clause, detail, wc=None):
        V.append({"clause": clause, "detail": detail, "witness_class": wc})
    if "error" in out:
        bad("mass_constructs", out["error"] + ": " + out.get("error_msg", ""), out["error"])
        return V
    f32 = case["vdtype"] == "float32"
    rt = 5e-4 if f32 else 1e-9
    n = len(case["v"])
    meas = measures(case["v"], case["t"])
    total = float(meas.sum())
    x, y = np.array(case["x"]), np.array(case["y"])
    Bf, Bl = fc.dense(out["B_0"]), fc.dense(out["B_1"])
    for name, B, key in (("full", Bf, "B_0"), ("lumped", Bl, "B_1")):
        if B.shape != (n, n):
            bad("mass_shape", f"{name} {B.shape}")
            return V
        sc = np.abs(B).max()
        if np.abs(B - B.T).max() > rt * sc:
            bad("mass_symmetric", f"{name} asym {np.abs(B - B.T).max()}")
        if min(out[key]["a"]) <= 0:
            bad("mass_stored_entries_positive", f"{name} min stored {min(out[key]['a'])}")
        if abs(B.sum() - total) > rt * total * 10:
            bad("mass_entries_sum_to_measure", f"{name} sum {B.sum()} vs {total}")
    ex = exact_l2(case["v"], case["t"], x, y)
    got = float(x @ Bf @ y)
    if abs(got - ex) > rt * (abs(ex) + total) * 10:
        bad("mass_exact_l2_product", f"x.B.y {got} vs quadrature {ex}")
    if np.abs(Bl - np.diag(Bf.sum(1))).max() > rt * np.abs(Bf).max() * 10:
        bad("lumped_is_rowsum_diagonal", f"max diff {np.abs(Bl - np.diag(Bf.sum(1))).max()}")
    # vertex measures
    k = np.array(case["t"]).shape[1]
    vm = np.zeros(n)
    np.add.at(vm, np.array(case["t"]).reshape(-1), np.repeat(meas / k, k))
    if np.abs(np.diag(Bl) - vm).max() > rt * vm.max() * 10:
        bad("lumped_is_vertex_measure", f"max diff {np.abs(np.diag(Bl) - vm).max()}")
    if case["kind"] == "tria":
        for L, B in ((0, Bf), (1, Bl)):
            M = fc.dense(out[f"M_{L}"])
            if M.shape != B.shape or np.abs(M - B).max() > max(rt, 1e-12) * np.abs(B).max() * 10:
                bad("fem_tria_mass_equals_solver_mass", f"lump={L} max diff {np.abs(M - B).max() if M.shape == B.shape else 'shape'}")
    return V


def nontrivial(case, out):
    if "error" in out or len(case["t"]) < 2:
        return False
    cnt = {}
    for r in case["t"]:
        for i in r:
            cnt[i] = cnt.get(i, 0) + 1
    return max(cnt.values()) >= 2
