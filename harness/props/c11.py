"""C11  refine_ subdivides 1-to-4 preserving geometry and topology."""
import numpy as np

from .. import core, gen_mesh as gm
from . import c09

ID = "C11"
LIMIT = 30.0
RULE = ("all 4-vertex complexes and sampled 5-vertex complexes (any topology incl. non-manifold / unoriented / unused vertices) plus "
        "structured families (two of them containing a two-triangle pillow, finding F25) with flips, rotations, relabelling, unused vertices, integer-valued and float32 coordinates; it in 0..3 "
        "(size-capped). distinct = hash of (v,t,it); non-trivial = it >= 1 and mesh not (closed and manifold and oriented), or it >= 2")
TRUSTED = ["sparse.triu(format=csr) row-major order, sparse fancy indexing adjtriu[rows, cols] (modelled by sorted edge list lookup)"]
ASSUMPTIONS = []
EXHAUSTIVE = {"quick": False, "thorough": False}
SHARD_BYTES = 120_000

COQ_HEADER = """From Coq Require Import List PrimFloat String.
From LaPyV Require Import Base.Scalar Base.Vec3 Base.ListAux Model.TetMesh Model.TriaAdj Model.TriaRefine Chk.Cmp Chk.C11.
Import ListNotations. Open Scope float_scope."""
COQ_CHECK = "check_c11"
COQ_LABELS = ["vertices", "triangles"]


def generate(rng, tier):
    cases = []
    for c in c09.small_complexes(4):
        cases.append({"family": "complex4", "v": c09._PTS5[:4], "t": c["t"], "it": 1})
    for c in c09.small_complexes(5, rng, 150 if tier == "quick" else 3000):
        cases.append({"family": "complex5", "v": c09._PTS5, "t": c["t"], "it": rng.choice([1, 1, 2])})
    # two triangles on the same three vertices (a "pillow", two faces glued along all three edges): the index-based subdivision
    # identifies the midpoint edges of the two faces (finding F25)
    pil = ([[5.0, 0.0, 0.0], [6.0, 0.2, 0.0], [5.1, 1.0, 0.3]], [[0, 1, 2], [0, 2, 1]])
    for name, (v, t) in (("pillow_tetra", gm.union([gm.tetra_surface(), pil])), ("pillow_grid", gm.union([pil, gm.grid(2, 1)]))):
        cases.append({"family": name, "v": v, "t": t, "it": 1, "vdtype": "float64"})
    n = 90 if tier == "quick" else 900
    for i in range(n):
        fam = gm.TRIA_FAMILIES[i % len(gm.TRIA_FAMILIES)]
        v, t = gm.tria_family(fam, rng, small=True)
        if len(t) < 3 or len(t) > 40:
            continue
        if rng.random() < 0.3:
            t, _ = gm.flip_some(t, rng, 0.4)
        if rng.random() < 0.3:
            t = gm.rotate_rows(t, rng)
        if rng.random() < 0.25:
            v, t = gm.add_unused(v, t, rng)
        if rng.random() < 0.3:
            v, t, _ = gm.relabel(v, t, rng)
        it = rng.choice([0, 1, 1, 2, 3])
        while len(t) * 4 ** it > 700:
            it -= 1
        vd = rng.choice(["float64", "float64", "float32", "int64"])
        if vd == "int64":
            v = [[float(round(3 * c)) for c in p] for p in v]     # integer-valued coordinates, stored as ints
        elif vd == "float32":
            v = np.array(v, dtype=np.float32).astype(float).tolist()
        cases.append({"family": fam, "v": v, "t": t, "it": it, "vdtype": vd})
    return cases


def _topo(t):
    und, dirc = {}, {}
    for r in t:
        for a, b in ((r[0], r[1]), (r[1], r[2]), (r[2], r[0])):
            und[frozenset((a, b))] = und.get(frozenset((a, b)), 0) + 1
            dirc[(a, b)] = dirc.get((a, b), 0) + 1
    used = set(i for r in t for i in r)
    return {"euler": len(used) - len(und) + len(t), "closed": all(c != 1 for c in und.values()),
            "manifold": all(c <= 2 for c in und.values()), "oriented": all(c == 1 for c in dirc.values()),
            "nedges": len(und), "nbedges": sum(1 for c in und.values() if c == 1)}


def run_impl(case):
    from lapy import TriaMesh
    out = {}
    vd = case.get("vdtype", "float64")
    v = np.array(case["v"], dtype=vd)
    t = np.array(case["t"], dtype=int)
    try:
        m = TriaMesh(v.copy(), t.copy())
        pre = {}
        try:
            val, to = core.call_limited(lambda: len(m.boundary_loops()), 3.0)
            pre["loops"] = to or val
        except Exception as e:
            pre["loops"] = core.errkind(e)
        m.is_oriented()
        m.refine_(case["it"])
        out["v"] = np.asarray(m.v, dtype=float).tolist()
        out["t"] = m.t.tolist()
        out["pre_loops"] = pre["loops"]
        try:
            val, to = core.call_limited(lambda: len(m.boundary_loops()), 3.0)
            out["post_loops"] = to or val
        except Exception as e:
            out["post_loops"] = core.errkind(e)
        fresh = TriaMesh(m.v, m.t)
        out["adj_fresh"] = bool((abs(fresh.adj_sym - m.adj_sym)).nnz == 0 and (abs(fresh.adj_dir - m.adj_dir)).nnz == 0
                                and fresh.adj_sym.shape == m.adj_sym.shape)
        # it successive single steps
        m2 = TriaMesh(v.copy(), t.copy())
        for _ in range(case["it"]):
            m2.refine_(1)
        out["steps_equal"] = bool(np.array_equal(m2.t, m.t) and np.array_equal(m2.v, m.v))
    except core.CaseTimeout:
        out["error"] = "OutOfFuel"
    except Exception as e:
        out["error"] = core.errkind(e)
        out["error_msg"] = str(e)[:200]
    return out


def coq_case(case, out):
    if "error" in out or case.get("vdtype") == "int64":
        return None
    tol = "0x1.4f8b588e368f1p-17" if case.get("vdtype") == "float32" else "0x1p-44"
    return "(%s, %s, %s, %d%%nat, (%s, %s))" % (tol, core.cv3list(case["v"]), core.ctuples(case["t"]), case["it"],
                                               core.cv3list(out["v"]), core.ctuples(out["t"]))


def _area_vol_centroid(v, t):
    p = np.array(v, dtype=float)
    f = np.array(t, dtype=int)
    cr = np.cross(p[f[:, 1]] - p[f[:, 0]], p[f[:, 2]] - p[f[:, 0]])
    a = np.linalg.norm(cr, axis=1) / 2
    vol = float(np.sum(np.einsum("ij,ij->i", p[f[:, 0]], np.cross(p[f[:, 1]], p[f[:, 2]]))) / 6)
    cen = (a[:, None] * (p[f[:, 0]] + p[f[:, 1]] + p[f[:, 2]]) / 3).sum(0)
    return float(a.sum()), vol, cen


def oracle(case, out):
    V = []
    def bad(clause, detail, wc=None):
        V.append({"clause": clause, "detail": detail, "witness_class": wc})
    if "error" in out:
        bad("refine_no_exception", out["error"] + ": " + out.get("error_msg", ""))
        return V
    v0, t0, it = np.array(case["v"], dtype=float), case["t"], case["it"]
    v1, t1 = np.array(out["v"], dtype=float), out["t"]
    # reference refinement, step by step
    rv, rt = v0.tolist(), [list(r) for r in t0]
    tol = 1e-5 if case.get("vdtype") == "float32" else 1e-12
    for _ in range(it):
        rv, rt = gm.refine(rv, rt)
    if len(v1) != len(rv) or len(t1) != len(rt):
        bad("counts_quadruple_and_grow_by_edges", f"V {len(v1)} vs {len(rv)}, T {len(t1)} vs {len(rt)}")
        return V
    if np.abs(v1[: len(v0)] - v0).max() > 0:
        bad("keeps_existing_vertices", "old vertex moved")
    # new vertices are the edge midpoints (as a set) and children tile their parent with the same winding
    R = np.array(rv)
    d = np.abs(R[:, None, :] - v1[None, :, :]).max(2)
    lim = tol * (1 + np.abs(v0).max())
    if d.min(1).max() > lim or d.min(0).max() > lim:
        bad("one_new_vertex_at_each_edge_midpoint", "vertex sets differ from reference subdivision")
    if it == 1:
        for k, par in enumerate(t0):
            P = v0[par]
            ncr = np.cross(P[1] - P[0], P[2] - P[0])
            kids = t1[4 * k: 4 * k + 4]
            csum = np.zeros(3)
            for kid in kids:
                Q = v1[kid]
                c = np.cross(Q[1] - Q[0], Q[2] - Q[0])
                csum += c
                if np.abs(c - ncr / 4).max() > tol * (1 + np.abs(ncr).max()):
                    bad("children_tile_parent_with_same_winding", f"parent {k} child {kid}")
                    break
    a0, vol0, c0 = _area_vol_centroid(v0, t0)
    a1, vol1, c1 = _area_vol_centroid(v1, t1)
    if abs(a0 - a1) > max(tol, 1e-9) * (1 + a0) * 10:
        bad("area_preserved", f"{a0} vs {a1}")
    tp0, tp1 = _topo(t0), _topo(t1)
    if tp0["closed"] and abs(vol0 - vol1) > max(tol, 1e-9) * (1 + abs(vol0)) * 10:
        bad("volume_preserved", f"{vol0} vs {vol1}")
    if np.abs(c0 - c1).max() > max(tol, 1e-9) * (1 + np.abs(c0).max() + a0) * 10:
        bad("centroid_preserved", f"{c0} vs {c1}")
    sets = [frozenset(r) for r in t0]
    wc = "two_triangles_same_vertex_set" if len(set(sets)) < len(sets) else None
    changed = [f"{key} {tp0[key]} -> {tp1[key]}" for key in ("euler", "closed", "manifold", "oriented") if tp0[key] != tp1[key]]
    if out["pre_loops"] != out["post_loops"]:
        changed.append(f"boundary loops {out['pre_loops']} -> {out['post_loops']}")
    if wc and changed:
        bad("topology_unchanged_by_refinement", "; ".join(changed), wc)
    else:
        for key in ("euler", "closed", "manifold", "oriented"):
            if tp0[key] != tp1[key]:
                bad(f"{key}_preserved", f"{tp0[key]} -> {tp1[key]}")
        if out["pre_loops"] != out["post_loops"]:
            bad("boundary_loop_count_preserved", f"{out['pre_loops']} -> {out['post_loops']}")
    if not out["steps_equal"]:
        bad("refine_it_equals_it_single_steps", "differs")
    if not out["adj_fresh"]:
        bad("adjacency_rebuilt", "adj_sym/adj_dir differ from a freshly constructed mesh")
    return V


def nontrivial(case, out):
    if "error" in out or case["it"] == 0:
        return False
    tp = _topo(case["t"])
    return case["it"] >= 2 or not (tp["closed"] and tp["manifold"] and tp["oriented"])


def case_key(case):
    return core.case_hash([case["v"], case["t"], case["it"]])
