"""C09  Connectivity queries agree with brute-force combinatorics."""
import itertools

import numpy as np

from .. import core, gen_mesh as gm

ID = "C09"
LIMIT = 6.0
RULE = ("all complexes on 4 labelled vertices with >= 3 triangles (each of the 4 triangles absent/ccw/cw) + sampled (quick) or all "
        "(thorough, 58 848) complexes on 5 labelled vertices (3^10 assignments, >= 3 triangles; includes unused vertices, non-manifold, "
        "non-orientable, pinched boundaries) + structured families (grids, fans, annuli, Moebius, polyhedra, tori, unions, books) with "
        "flips / rotations / relabelling / unused vertices. distinct = hash of (n,t); non-trivial = not all three predicates "
        "closed/manifold/oriented true")
TRUSTED = ["scipy CSC storage order (sorted row indices per column), np.nonzero order on CSC/CSR, sparse.triu (modelled by sorted key lists)"]
ASSUMPTIONS = ["a boundary_loops / edges call that does not return within 6 s corresponds to OutOfFuel in the model"]
EXHAUSTIVE = {"quick": False, "thorough": True}
SHARD_BYTES = 250_000
SEARCH_CAP = 70000

COQ_HEADER = """From Coq Require Import List ZArith String.
From LaPyV Require Import Base.ListAux Model.TetMesh Model.TriaAdj Chk.Cmp Chk.C09.
Import ListNotations."""
COQ_CHECK = "check_c09"
COQ_LABELS = ["is_closed", "is_manifold", "is_oriented", "euler", "has_free_vertices", "vertex_degrees", "boundary_loops",
              "edges", "edges_with_boundary"]

_PTS5 = [[0.0, 0.0, 0.0], [1.0, 0.0, 0.1], [0.3, 1.0, 0.0], [0.2, 0.3, 1.0], [-0.7, 0.4, 0.5]]


def small_complexes(nv, rng=None, sample=None):
    tris = list(itertools.combinations(range(nv), 3))
    out = []
    total = 3 ** len(tris)
    codes = range(total) if sample is None else sorted(rng.sample(range(total), sample))
    for code in codes:
        t = []
        c = code
        for tri in tris:
            s = c % 3
            c //= 3
            if s == 1:
                t.append(list(tri))
            elif s == 2:
                t.append([tri[1], tri[0], tri[2]])
        if len(t) >= 3:
            out.append({"family": f"complex{nv}", "n": nv, "t": t})
    return out


def generate(rng, tier):
    cases = small_complexes(4)
    if tier == "quick":
        cases += small_complexes(5, rng, 1500)
    else:
        cases += small_complexes(5)
    nstruct = 150 if tier == "quick" else 1500
    for i in range(nstruct):
        fam = gm.TRIA_FAMILIES[i % len(gm.TRIA_FAMILIES)]
        v, t = gm.tria_family(fam, rng, small=True)
        if len(t) < 3 or len(v) > 40:
            continue
        r = rng.random()
        if r < 0.35:
            t, _ = gm.flip_some(t, rng, rng.choice([0.1, 0.5, 1.0]))
        if rng.random() < 0.4:
            t = gm.rotate_rows(t, rng)
        if rng.random() < 0.3:
            t, _ = gm.reorder(t, rng)
        if rng.random() < 0.3:
            v, t = gm.add_unused(v, t, rng)
        if rng.random() < 0.4:
            v, t, _ = gm.relabel(v, t, rng)
        if rng.random() < 0.15 and len(t) > 4:
            k = rng.randrange(len(t))
            t = t[:k] + t[k + 1:]     # punch a hole
        cases.append({"family": fam, "n": len(v), "t": t})
    return cases


def _pts(n):
    if n <= 5:
        return _PTS5[:n] if n >= 3 else _PTS5[:3]
    return [[np.cos(1.7 * i), np.sin(2.3 * i), 0.1 * i] for i in range(n)]


def run_impl(case):
    from lapy import TriaMesh
    out = {}
    n = case["n"]
    try:
        m = TriaMesh(np.array(_pts(n), dtype=float), np.array(case["t"], dtype=int))
    except Exception as e:
        return {"ctor_error": core.errkind(e)}
    out["closed"] = bool(m.is_closed())
    out["manifold"] = bool(m.is_manifold())
    out["oriented"] = bool(m.is_oriented())
    out["euler"] = int(m.euler())
    out["free"] = bool(m.has_free_vertices())
    out["vdeg"] = [int(x) for x in m.vertex_degrees()]
    try:
        out["loops"] = [[int(x) for x in l] for l in m.boundary_loops()]
    except core.CaseTimeout:
        out["loops"] = "OutOfFuel"
    except Exception as e:
        out["loops"] = core.errkind(e)
    try:
        vids, tids = m.edges()
        out["edges"] = [vids.tolist(), tids.tolist()]
    except Exception as e:
        out["edges"] = core.errkind(e)
    try:
        r = m.edges(with_boundary=True)
        if len(r) == 4:
            out["bedges"] = [r[2].tolist(), [int(x) for x in np.asarray(r[3]).ravel()]]
        else:
            out["bedges"] = [[], []]
    except Exception as e:
        out["bedges"] = core.errkind(e)
    return out


def _res(x, okfmt):
    if isinstance(x, str):
        k = {"ValueError": "ValueError", "IndexError": "IndexError", "OutOfFuel": "OutOfFuel"}.get(x, "OtherError")
        return f"(Err {k})"
    return f"(Ok {okfmt(x)})"


def coq_case(case, out):
    if "ctor_error" in out or out.get("_timeout"):
        return None
    loops = _res(out["loops"], lambda ls: "[" + "; ".join(core.cnlist(l) for l in ls) + "]")
    edges = _res(out["edges"], lambda e: f"({core.ctuples(e[0])}, {core.ctuples(e[1])})")
    bed = _res(out["bedges"], lambda e: f"({core.ctuples(e[0])}, {core.cnlist(e[1])})")
    obs = "(mkC09 %s %s %s %s %s %s %s %s %s)" % (
        core.cbool(out["closed"]), core.cbool(out["manifold"]), core.cbool(out["oriented"]), core.cz(out["euler"]),
        core.cbool(out["free"]), core.cnlist(out["vdeg"]), loops, edges, bed)
    return f"({case['n']}%nat, {core.ctuples(case['t'])}, {obs})"


def brute(case):
    t = case["t"]
    und, dirc = {}, {}
    for k, r in enumerate(t):
        for a, b in ((r[0], r[1]), (r[1], r[2]), (r[2], r[0])):
            und.setdefault(frozenset((a, b)), []).append(k)
            dirc.setdefault((a, b), []).append(k)
    return und, dirc


def oracle(case, out):
    V = []
    def bad(clause, detail, wc=None):
        V.append({"clause": clause, "detail": detail, "witness_class": wc})
    if out.get("_timeout"):
        bad("queries_terminate", "timeout outside boundary_loops")
        return V
    if "ctor_error" in out:
        bad("constructor_accepts", out["ctor_error"])
        return V
    t, n = case["t"], case["n"]
    und, dirc = brute(case)
    closed = all(len(k) != 1 for k in und.values())
    manifold = all(len(k) <= 2 for k in und.values())
    oriented = all(len(k) == 1 for k in dirc.values())
    used = set(i for r in t for i in r)
    if out["closed"] != closed:
        bad("is_closed_iff_no_edge_in_one_triangle", f"{out['closed']} vs {closed}")
    if out["manifold"] != manifold:
        bad("is_manifold_iff_no_edge_in_more_than_two", f"{out['manifold']} vs {manifold}")
    if out["oriented"] != oriented:
        bad("is_oriented_iff_no_repeated_half_edge", f"{out['oriented']} vs {oriented}")
    if out["euler"] != len(used) - len(und) + len(t):
        bad("euler_is_V_minus_E_plus_T", f"{out['euler']} vs {len(used) - len(und) + len(t)}")
    if out["free"] != (len(used) != n):
        bad("has_free_vertices_iff_unused_vertex", f"{out['free']}")
    deg = [0] * n
    for e in und:
        for i in e:
            deg[i] += 1
    if out["vdeg"] != deg:
        bad("vertex_degrees_counts_edges", f"{out['vdeg']} vs {deg}", "boundary_vertex" if len(out["vdeg"]) == n else "length")
    # boundary loops
    L = out["loops"]
    bh = [e for e, k in dirc.items() if len(und[frozenset(e)]) == 1]
    if not manifold:
        if L != "ValueError":
            bad("boundary_loops_rejects_non_manifold", f"{L}")
    elif closed:
        if L != []:
            bad("boundary_loops_none_for_closed", f"{L}")
    elif not oriented:
        if L != "ValueError":
            bad("boundary_loops_rejects_unoriented", f"{L}")
    else:
        outdeg = {}
        for a, b in bh:
            outdeg[a] = outdeg.get(a, 0) + 1
        if all(c == 1 for c in outdeg.values()):
            if isinstance(L, str):
                bad("boundary_loops_returns_cycles", f"{L}")
            else:
                seen = []
                dirs = set()
                for loop in L:
                    if len(set(loop)) != len(loop):
                        bad("boundary_loops_simple_cycles", f"{loop}")
                    for a, b in zip(loop, loop[1:] + loop[:1]):
                        if (a, b) in dirc and len(und[frozenset((a, b))]) == 1:
                            dirs.add("with")
                            seen.append(frozenset((a, b)))
                        elif (b, a) in dirc and len(und[frozenset((a, b))]) == 1:
                            dirs.add("against")
                            seen.append(frozenset((a, b)))
                        else:
                            bad("boundary_loops_follow_boundary_edges", f"{(a, b)} in {loop}")
                if len(dirs) > 1:
                    bad("boundary_loops_consistently_directed", f"{L}")
                if sorted(map(sorted, seen)) != sorted(map(sorted, [frozenset(e) for e in bh])):
                    bad("boundary_loops_use_every_boundary_edge_once", f"{L}")
    # edges
    E = out["edges"]
    if not oriented:
        if E != "ValueError":
            bad("edges_rejects_unoriented", f"{E}")
    elif isinstance(E, str):
        bad("edges_no_exception", E)
    else:
        vids, tids = E
        inner = sorted(tuple(sorted(e)) for e, k in und.items() if len(k) == 2)
        if sorted(map(tuple, vids)) != inner or any(a >= b for a, b in vids):
            bad("edges_lists_every_interior_edge_once", f"{vids} vs {inner}")
        else:
            for (a, b), (t0, t1) in zip(vids, tids):
                if dirc.get((a, b)) != [t0] or dirc.get((b, a)) != [t1] or t0 == t1:
                    bad("edges_adjacent_triangles", f"edge {(a, b)} tids {(t0, t1)}")
                    break
    B = out["bedges"]
    if oriented:
        if isinstance(B, str):
            bad("edges_with_boundary_no_exception", B)
        else:
            got = sorted((tuple(e), k) for e, k in zip(B[0], B[1]))
            exp = sorted((e, dirc[e][0]) for e in bh)
            if got != exp:
                bad("edges_lists_every_boundary_half_edge_with_triangle", f"{got} vs {exp}")
    return V


def nontrivial(case, out):
    return "ctor_error" not in out and not out.get("_timeout") and not (out.get("closed") and out.get("manifold") and out.get("oriented"))


def case_key(case):
    return core.case_hash([case["n"], case["t"]])
