"""C20  Mesh objects stay internally consistent across any history of operations."""
import itertools
import os

import numpy as np

from .. import core, effects_extract, gen_mesh as gm

ID = "C20"
LIMIT = 40.0
RULE = ("(a) every sequence of length <= 2 (quick) / <= 3 (thorough) of {orient_, refine_(1), rm_free_vertices_, normalize_, smooth_(1), "
        "normal_offset_(0.1)} plus random sequences of length 4-6 (refine_(0|2), smooth_(0|3), offsets +-d) on seed triangle meshes "
        "(closed/open, oriented/unoriented, non-manifold book, leading/interior/trailing unused vertices, two components), each query "
        "compared live vs freshly constructed after every step; (b) the same for tetra objects with {orient_, rm_free_vertices_}; "
        "(c) constructor inputs (n x 3, 3 x n, wrong widths, out-of-range indices, input mutated afterwards); (d) every public "
        "non-underscore function applied to meshes with snapshots of all arrays before/after. distinct = hash of the case; "
        "non-trivial = history of length >= 2 containing an operation that changes connectivity, or a rejected constructor input")
TRUSTED = ["harness/effects_extract.py (Python ast -> effects table) is part of the trusted base of the effects theorem",
           "numpy boolean-mask indexing / cumsum lookup in rm_free_vertices_ (modelled)"]
ASSUMPTIONS = ["the state-machine model abstracts 'derived adjacency' to the triangle list and vertex count it was last built from"]
EXHAUSTIVE = {"quick": True, "thorough": True}
SHARD_BYTES = 100_000

COQ_HEADER = """From Coq Require Import List ZArith PrimFloat String.
From LaPyV Require Import Base.Scalar Base.Vec3 Base.ListAux Base.Sparse Model.TetMesh Model.TriaAdj Model.TriaOrient Model.TriaRefine Model.TriaGeom Model.TriaFunc Model.ObjState Chk.Cmp Chk.C09 Chk.C20.
Import ListNotations. Open Scope float_scope."""
COQ_CHECK = "check_c20"
COQ_LABELS = ["return_values", "final_elements", "final_vertices", "final_queries"]

MAX_TRIA = 130
BASE_OPS = [["orient_"], ["refine_", 1], ["rm_free_vertices_"], ["normalize_"], ["smooth_", 1], ["normal_offset_", 0.1]]


def seeds(rng):
    out = []
    v, t = gm.tetra_surface()
    t2 = [list(r) for r in t]
    t2[1] = [t2[1][1], t2[1][0], t2[1][2]]
    out.append(("tetra_one_flipped", v, t2))
    v, t = gm.grid(2, 1, rng, "smooth")
    out.append(("grid_open", v, t))
    v, t = gm.octahedron()
    v = gm.jitter(v, rng, 0.15)          # a regular octahedron collapses to a point under one smoothing step
    t = [[r[0], r[2], r[1]] for r in t]
    out.append(("octa_inside_out", v, t))
    v, t = gm.fan(4)
    v, t = gm.add_unused(v, t, rng, "lead")
    out.append(("fan_unused_lead", v, t))
    v, t = gm.cube_surface()
    v, t = gm.add_unused(v, t, rng, "mid")
    v, t = gm.add_unused(v, t, rng, "trail")
    t3, _ = gm.flip_some(t, rng, 0.4)
    out.append(("cube_unused_mid_trail_flipped", v, t3))
    v, t = gm.union([gm.tetra_surface(), gm.fan(3)])
    t, _ = gm.flip_some(t, rng, 0.3)
    out.append(("union_closed_open", v, t))
    v, t = gm.book(3)
    out.append(("book_nonmanifold", v, t))
    return out


def generate(rng, tier):
    cases = []
    maxlen = 2 if tier == "quick" else 3
    for name, v, t in seeds(rng):
        for L in range(0, maxlen + 1):
            for seq in itertools.product(range(len(BASE_OPS)), repeat=L):
                if sum(1 for k in seq if k == 1) > 2:
                    continue
                if len(t) * 4 ** sum(1 for k in seq if k == 1) > MAX_TRIA:
                    continue          # the in-Coq evaluation of orient_ is quadratic: keep refined meshes small
                if name.startswith("octa") and 4 in seq and (0 in seq[seq.index(4):] or 5 in seq[seq.index(4):]):
                    # smoothing maps opposite vertices of an octahedron (same neighbours) to the same point: the mesh becomes flat
                    # and the sign of its volume, which a later orient_ looks at, is rounding noise; so are the vertex normals
                    # (sums of cancelling cross products) along which a later normal_offset_ moves the vertices
                    continue
                cases.append({"kind": "tria_hist", "family": name, "v": v, "t": t, "ops": [BASE_OPS[k] for k in seq]})
        for _ in range(6 if tier == "quick" else 60):
            L = rng.randint(4, 6)
            ops, nref = [], 0
            for _k in range(L):
                op = rng.choice([["orient_"], ["refine_", rng.choice([0, 1, 2])], ["rm_free_vertices_"], ["normalize_"],
                                 ["smooth_", rng.choice([0, 1, 3])], ["normal_offset_", rng.choice([0.1, -0.05, 0.3])]])
                if op[0] == "refine_":
                    if nref + op[1] > 2 or len(t) * 4 ** (nref + op[1]) > MAX_TRIA:
                        continue
                    nref += op[1]
                if name.startswith("octa") and op[0] in ("orient_", "normal_offset_") and any(o[0] == "smooth_" for o in ops):
                    continue          # flat after smoothing, see above
                ops.append(op)
            cases.append({"kind": "tria_hist", "family": name + "_random", "v": v, "t": t, "ops": ops})
    # tetra objects
    for k in range(6 if tier == "quick" else 40):
        v, t = gm.tet_family(["kuhn", "single", "subset", "delaunay"][k % 4], rng)
        t, _ = gm.flip_some(t, rng, rng.choice([0.0, 0.4, 1.0]))
        if k % 2 == 0:
            v, t = gm.add_unused(v, t, rng, ["lead", "mid", "trail"][k % 3])
        for L in range(0, 4):
            for seq in itertools.product(["orient_", "rm_free_vertices_"], repeat=L):
                cases.append({"kind": "tet_hist", "family": "tet", "v": v, "t": t, "ops": [[x] for x in seq]})
    # constructor
    for k in range(12 if tier == "quick" else 100):
        v, t = gm.tria_family(rng.choice(["grid", "fan", "tetra", "octa", "delaunay"]), rng)
        mode = ["plain", "transposed", "bad_index", "bad_width_t", "bad_width_v", "mutate_after", "one_based"][k % 7]
        if mode in ("transposed", "bad_width_t", "bad_width_v") and (len(v) < 4 or len(t) < 4):
            mode = "plain"       # a 3 x 4 array is read as four transposed rows: not a malformed input
        if len(t) < 3:
            continue
        cases.append({"kind": "ctor", "family": "ctor_" + mode, "v": v, "t": t, "mode": mode})
    # non-mutation of arguments by non-underscore functions
    for name, v, t in seeds(rng):
        cases.append({"kind": "nomut", "family": "nomut_" + name, "v": v, "t": t})
    for k in range(2 if tier == "quick" else 10):
        v, t = gm.ellipsoid(1, (1.0, 1.7, 1.2))
        if k % 2:
            t, _ = gm.flip_some(t, rng, 0.2)
        cases.append({"kind": "nomut", "family": "nomut_ellipsoid", "v": v, "t": t})
        v, t = gm.tet_family("kuhn", rng)
        cases.append({"kind": "nomut_tet", "family": "nomut_tet", "v": v, "t": gm.flip_some(t, rng, 0.3)[0]})
    return cases


def _queries(m):
    q = {}
    for name in ("is_closed", "is_manifold", "is_oriented", "euler", "has_free_vertices", "area", "avg_edge_length"):
        try:
            x = getattr(m, name)()
            q[name] = float(x) if isinstance(x, (float, np.floating)) else (bool(x) if isinstance(x, (bool, np.bool_)) else int(x))
        except Exception as e:
            q[name] = core.errkind(e)
    try:
        q["vertex_degrees"] = [int(x) for x in m.vertex_degrees()]
    except Exception as e:
        q["vertex_degrees"] = core.errkind(e)
    for name in ("boundary_loops",):
        try:
            q[name] = [[int(i) for i in l] for l in getattr(m, name)()]
        except core.CaseTimeout:
            q[name] = "OutOfFuel"
        except Exception as e:
            q[name] = core.errkind(e)
    try:
        vids, tids = m.edges()
        q["edges"] = [vids.tolist(), tids.tolist()]
    except Exception as e:
        q["edges"] = core.errkind(e)
    try:
        q["vertex_normals"] = np.asarray(m.vertex_normals(), dtype=float).tolist()
    except Exception as e:
        q["vertex_normals"] = core.errkind(e)
    return q


def _tet_queries(m):
    q = {}
    for name in ("has_free_vertices", "is_oriented", "avg_edge_length"):
        try:
            x = getattr(m, name)()
            q[name] = float(x) if isinstance(x, (float, np.floating)) else bool(x)
        except Exception as e:
            q[name] = core.errkind(e)
    try:
        q["boundary"] = m.boundary_tria().t.tolist()
    except Exception as e:
        q["boundary"] = core.errkind(e)
    return q


def _qeq(a, b):
    if isinstance(a, float) and isinstance(b, float):
        return (a != a and b != b) or abs(a - b) <= 1e-9 * (1 + abs(b))
    if isinstance(a, list) and isinstance(b, list) and a and b and isinstance(a[0], list) and a[0] and isinstance(a[0][0], float):
        try:
            return np.allclose(np.array(a), np.array(b), rtol=0, atol=1e-6, equal_nan=True)
        except Exception:
            return False
    return a == b


def _apply(m, op):
    if op[0] == "orient_":
        return ["nat", int(m.orient_())]
    if op[0] == "refine_":
        m.refine_(op[1])
        return ["none"]
    if op[0] == "rm_free_vertices_":
        k, d = m.rm_free_vertices_()
        return ["keep", [int(x) for x in k], [int(x) for x in d]]
    if op[0] == "normalize_":
        m.normalize_()
        return ["none"]
    if op[0] == "smooth_":
        m.smooth_(op[1])
        return ["none"]
    if op[0] == "normal_offset_":
        m.normal_offset_(op[1])
        return ["none"]
    raise KeyError(op)


def run_impl(case):
    from lapy import TetMesh, TriaMesh
    out = {}
    kind = case["kind"]
    v = np.array(case["v"], dtype=float)
    t = np.array(case["t"], dtype=int)
    if kind in ("tria_hist", "tet_hist"):
        cls, qf = (TriaMesh, _queries) if kind == "tria_hist" else (TetMesh, _tet_queries)
        v_in, t_in = v.copy(), t.copy()
        m = cls(v_in, t_in)
        outs, stale = [], []
        geo_bad = None
        for k, op in enumerate(case["ops"]):
            before_v, before_t = np.array(m.v, dtype=float).copy(), np.array(m.t).copy()
            try:
                r = _apply(m, op)
                outs.append(r)
            except core.CaseTimeout:
                outs.append(["err", "OutOfFuel"])
                break
            except Exception as e:
                outs.append(["err", core.errkind(e)])
                r = None
            live = qf(m)
            try:
                fresh = qf(cls(np.array(m.v), np.array(m.t)))
            except Exception as e:
                fresh = {"_ctor": core.errkind(e)}
            diff = [key for key in live if not _qeq(live[key], fresh.get(key))]
            if diff:
                stale.append([k, op, diff])
            if r is not None and op[0] == "rm_free_vertices_":
                keep, dele = r[1], r[2]
                used = sorted(set(before_t.reshape(-1).tolist()))
                ok = keep == used and sorted(dele) == sorted(set(range(len(before_v))) - set(used)) if dele else keep == list(range(len(before_v)))
                nv = np.array(m.v, dtype=float)
                geo = ok and len(nv) == len(used if dele else before_v) and np.array_equal(nv[np.array(m.t)], before_v[before_t], equal_nan=True)
                geo = geo and (not dele or np.array_equal(nv, before_v[np.array(keep, dtype=int)], equal_nan=True))
                if not geo or bool(m.has_free_vertices()):
                    geo_bad = [k, keep, dele]
        out["outs"] = outs
        out["stale"] = stale
        out["rm_free_bad"] = geo_bad
        out["v"] = np.array(m.v, dtype=float).tolist()
        out["t"] = np.array(m.t).tolist()
        out["q"] = qf(m)
        out["inputs_untouched"] = bool(np.array_equal(v_in, v) and np.array_equal(t_in, t))
        return out
    if kind == "ctor":
        mode = case["mode"]
        vv, tt = v.copy(), t.copy()
        if mode == "transposed":
            vv, tt = vv.T.copy(), tt.T.copy()
        elif mode == "bad_index":
            tt[len(tt) // 2, 1] = len(vv)
        elif mode == "one_based":
            tt = tt + 1              # a one-based triangle list: its largest index is out of range
        elif mode == "bad_width_t":
            tt = np.hstack([tt, tt[:, :1]])
        elif mode == "bad_width_v":
            vv = np.hstack([vv, vv[:, :1]])
        out["vrows"], out["trows"] = vv.tolist(), tt.tolist()
        try:
            m = TriaMesh(vv, tt)
            out["v"], out["t"] = np.array(m.v, dtype=float).tolist(), np.array(m.t).tolist()
            vv[:] = -99.0
            tt[:] = 0
            out["copied"] = bool(np.array_equal(np.array(m.v, dtype=float), np.array(out["v"])) and np.array_equal(np.array(m.t), np.array(out["t"])))
        except Exception as e:
            out["error"] = core.errkind(e)
        # TetMesh index check
        try:
            TetMesh(np.zeros((4, 3)), np.array([[0, 1, 2, 4]]))
            out["tet_bad_index"] = "accepted"
        except Exception as e:
            out["tet_bad_index"] = core.errkind(e)
        return out
    # non-mutation
    import lapy
    from lapy import Solver, diffgeo, heat, shapedna
    changed = []
    if kind == "nomut":
        m = TriaMesh(v.copy(), t.copy())
        n, T = len(v), len(t)
        vf = np.linspace(0, 1, n) + 0.1 * np.sin(np.arange(n))
        vf2 = np.stack([vf, vf ** 2], 1)
        tf = np.linspace(1, 2, T)
        Xf = np.tile(np.array([1.0, 0.3, -0.2]), (T, 1))
        calls = [("is_closed", lambda: m.is_closed()), ("is_manifold", lambda: m.is_manifold()), ("is_oriented", lambda: m.is_oriented()),
                 ("euler", lambda: m.euler()), ("tria_areas", lambda: m.tria_areas()), ("area", lambda: m.area()),
                 ("volume", lambda: m.volume()), ("vertex_degrees", lambda: m.vertex_degrees()), ("vertex_areas", lambda: m.vertex_areas()),
                 ("avg_edge_length", lambda: m.avg_edge_length()), ("tria_normals", lambda: m.tria_normals()),
                 ("vertex_normals", lambda: m.vertex_normals()), ("has_free_vertices", lambda: m.has_free_vertices()),
                 ("tria_qualities", lambda: m.tria_qualities()), ("boundary_loops", lambda: m.boundary_loops()),
                 ("centroid", lambda: m.centroid()), ("edges", lambda: m.edges()), ("edges_b", lambda: m.edges(with_boundary=True)),
                 ("curvature", lambda: m.curvature(2)), ("curvature_tria", lambda: m.curvature_tria(2)),
                 ("map_tfunc_to_vfunc", lambda: m.map_tfunc_to_vfunc(tf)), ("map_tfunc_to_vfunc_w", lambda: m.map_tfunc_to_vfunc(tf, weighted=True)),
                 ("map_vfunc_to_tfunc", lambda: m.map_vfunc_to_tfunc(vf2)), ("smooth_vfunc", lambda: m.smooth_vfunc(vf2, 2)),
                 ("level_length", lambda: m.level_length(vf, 0.5)), ("level_path", lambda: m.level_path(vf, 0.5)),
                 ("construct_adj_dir_tidx", lambda: m.construct_adj_dir_tidx()),
                 ("Solver", lambda: Solver(m)), ("Solver_lump", lambda: Solver(m, lump=True)), ("Solver_aniso", lambda: Solver(m, aniso=1.0, aniso_smooth=1)),
                 ("fem_tria_mass", lambda: Solver.fem_tria_mass(m)), ("eigs", lambda: Solver(m).eigs(3)),
                 ("poisson", lambda: Solver(m).poisson(vf, (np.array([0]), np.array([0.0])))),
                 ("compute_gradient", lambda: diffgeo.compute_gradient(m, vf)), ("compute_divergence", lambda: diffgeo.compute_divergence(m, Xf)),
                 ("tria_compute_divergence2", lambda: diffgeo.tria_compute_divergence2(m, Xf)),
                 ("compute_geodesic_f", lambda: diffgeo.compute_geodesic_f(m, vf)), ("tria_compute_geodesic_f", lambda: diffgeo.tria_compute_geodesic_f(m, vf)),
                 ("compute_rotated_f", lambda: diffgeo.compute_rotated_f(m, vf)),
                 ("tria_mean_curvature_flow", lambda: diffgeo.tria_mean_curvature_flow(m, max_iter=2)),
                 ("tria_spherical_project", lambda: diffgeo.tria_spherical_project(m, flow_iter=1)),
                 ("diffusion", lambda: heat.diffusion(m, [0, 1], m=1.0)),
                 ("compute_shapedna", lambda: shapedna.compute_shapedna(m, k=3)),
                 ("normalize_ev_geometry", lambda: shapedna.normalize_ev(m, np.arange(3.0), method="geometry")),
                 ("normalize_ev_surface", lambda: shapedna.normalize_ev(m, np.arange(3.0), method="surface")),
                 ("normalize_ev_volume", lambda: shapedna.normalize_ev(m, np.arange(3.0), method="volume"))]
        try:
            from lapy import conformal
            calls.append(("spherical_conformal_map", lambda: conformal.spherical_conformal_map(m)))
        except Exception:
            pass
        arrays = {"vf": vf, "vf2": vf2, "tf": tf, "Xf": Xf}
    else:
        m = TetMesh(v.copy(), t.copy())
        n, T = len(v), len(t)
        vf = np.linspace(0, 1, n) + 0.1 * np.sin(np.arange(n))
        tf = np.linspace(1, 2, T)
        Xf = np.tile(np.array([1.0, 0.3, -0.2]), (T, 1))
        calls = [("is_oriented", lambda: m.is_oriented()), ("has_free_vertices", lambda: m.has_free_vertices()),
                 ("avg_edge_length", lambda: m.avg_edge_length()), ("boundary_tria", lambda: m.boundary_tria()),
                 ("boundary_tria_f", lambda: m.boundary_tria(tf)), ("construct_adj_sym", lambda: m.construct_adj_sym()),
                 ("Solver", lambda: Solver(m)), ("eigs", lambda: Solver(m).eigs(3)),
                 ("compute_gradient", lambda: diffgeo.compute_gradient(m, vf)), ("compute_divergence", lambda: diffgeo.compute_divergence(m, Xf)),
                 ("compute_geodesic_f", lambda: diffgeo.compute_geodesic_f(m, vf)), ("diffusion", lambda: heat.diffusion(m, [0], m=1.0)),
                 ("compute_shapedna", lambda: shapedna.compute_shapedna(m, k=3)),
                 ("normalize_ev_geometry", lambda: shapedna.normalize_ev(m, np.arange(3.0), method="geometry")),
                 ("normalize_ev_volume", lambda: shapedna.normalize_ev(m, np.arange(3.0), method="volume"))]
        arrays = {"vf": vf, "tf": tf, "Xf": Xf}
    snap = lambda: (np.array(m.v, dtype=float).copy(), np.array(m.t).copy(), {k: a.copy() for k, a in arrays.items()})
    ncalls = 0
    for name, fn in calls:
        v0, t0, a0 = snap()
        try:
            fn()
            ncalls += 1
        except core.CaseTimeout:
            changed.append([name, "timeout"])
            break
        except Exception:
            pass
        if not (np.array_equal(np.array(m.v, dtype=float), v0) and np.array_equal(np.array(m.t), t0)):
            changed.append([name, "mesh"])
            m.v, m.t = v0, t0
            m.__init__(v0, t0)
        for k, a in arrays.items():
            if not np.array_equal(a, a0[k]):
                changed.append([name, "array " + k])
                a[...] = a0[k]
    out["changed"] = changed
    out["ncalls"] = ncalls
    return out


def _cop(op):
    if op[0] == "orient_":
        return "OOrient"
    if op[0] == "refine_":
        return f"(ORefine {op[1]}%nat)"
    if op[0] == "rm_free_vertices_":
        return "ORmFree"
    if op[0] == "normalize_":
        return "ONormalize"
    if op[0] == "smooth_":
        return f"(OSmooth {op[1]}%nat)"
    return f"(OOffset {core.cfloat(op[1])})"


def _cout(r):
    if r[0] == "err":
        return "(Err %s)" % {"ValueError": "ValueError", "IndexError": "IndexError", "OutOfFuel": "OutOfFuel"}.get(r[1], "OtherError")
    if r[0] == "nat":
        return f"(Ok (RNat {r[1]}%nat))"
    if r[0] == "keep":
        return f"(Ok (RKeep {core.cnlist(r[1])} {core.cnlist(r[2])}))"
    return "(Ok RNone)"


def coq_case(case, out):
    kind = case["kind"]
    if kind == "tria_hist":
        if any(r[0] == "err" and r[1] == "OutOfFuel" for r in out["outs"]) or len(out["outs"]) != len(case["ops"]):
            return None
        q = out["q"]
        if any(isinstance(q[k], str) for k in ("is_closed", "is_manifold", "is_oriented", "euler", "vertex_degrees")):
            return None
        return "(TriaHist %s %s %s [%s] [%s] %s %s (%s, %s, %s, %s, %s))" % (
            "0x1.12e0be826d695p-27", core.cv3list(case["v"]), core.ctuples(case["t"]), "; ".join(_cop(o) for o in case["ops"]),
            "; ".join(_cout(r) for r in out["outs"]), core.cv3list(out["v"]), core.ctuples(out["t"]),
            core.cbool(q["is_closed"]), core.cbool(q["is_manifold"]), core.cbool(q["is_oriented"]), core.cz(q["euler"]),
            core.cnlist(q["vertex_degrees"]))
    if kind == "tet_hist":
        ops = "; ".join("TOrient" if o[0] == "orient_" else "TRmFree" for o in case["ops"])
        return "(TetHist %s %s [%s] [%s] %s %s)" % (core.cv3list(case["v"]), core.ctuples(case["t"]), ops,
                                                   "; ".join(_cout(r) for r in out["outs"]), core.cv3list(out["v"]), core.ctuples(out["t"]))
    if kind == "ctor":
        vr = "[" + "; ".join(core.cflist(r) for r in out["vrows"]) + "]"
        tr = "[" + "; ".join(core.cnlist(r) for r in out["trows"]) + "]"
        if "error" in out:
            res = "(Err %s)" % {"ValueError": "ValueError", "IndexError": "IndexError"}.get(out["error"], "OtherError")
        else:
            res = f"(Ok ({core.cv3list(out['v'])}, {core.ctuples(out['t'])}))"
        return f"(CtorCase {vr} {tr} {res})"
    return None


def oracle(case, out):
    V = []
    def bad(clause, detail, wc=None):
        V.append({"clause": clause, "detail": detail, "witness_class": wc})
    kind = case["kind"]
    if out.get("_timeout"):
        bad("operations_terminate", "timeout")
        return V
    if kind in ("tria_hist", "tet_hist"):
        for k, op, diff in out["stale"]:
            bad("queries_equal_fresh_object", f"after step {k} {op}: {diff} differ between live and freshly constructed object",
                f"{kind}:{op[0]}")
            break
        if out["rm_free_bad"]:
            bad("rm_free_vertices_exact", f"{out['rm_free_bad']}")
        if not out["inputs_untouched"]:
            bad("operations_do_not_write_caller_arrays", "constructor input arrays changed")
        for r, op in zip(out["outs"], case["ops"]):
            if r[0] == "err" and r[1] not in ("ValueError",):
                bad("operations_raise_only_documented_errors", f"{op}: {r[1]}", r[1])
                break
        return V
    if kind == "ctor":
        mode = case["mode"]
        if mode in ("bad_index", "bad_width_t", "bad_width_v", "one_based"):
            if out.get("error") != "ValueError":
                bad("constructor_rejects_with_ValueError", f"{mode}: {out.get('error', 'accepted')}")
        else:
            if "error" in out:
                bad("constructor_accepts_valid_input", f"{mode}: {out['error']}")
            else:
                if out["v"] != case["v"] or out["t"] != case["t"]:
                    bad("constructor_keeps_or_transposes", f"{mode}")
                if not out["copied"]:
                    bad("constructor_copies_inputs", "mesh changed when the input arrays were overwritten")
        if out.get("tet_bad_index") != "ValueError":
            bad("tet_constructor_rejects_bad_index", str(out.get("tet_bad_index")))
        return V
    for name, what in out["changed"]:
        bad("non_underscore_function_keeps_mesh" if what == "mesh" else "no_write_into_caller_arrays", f"{name}: {what}", name)
    return V


def nontrivial(case, out):
    if case["kind"] in ("tria_hist", "tet_hist"):
        return len(case["ops"]) >= 2 and any(o[0] in ("orient_", "refine_", "rm_free_vertices_") for o in case["ops"])
    if case["kind"] == "ctor":
        return case["mode"] != "plain"
    return out.get("ncalls", 0) > 10


# ---------------------------------------------------------------- effects table (translator-based obligations)
def extra_obligations():
    table, problems = effects_extract.extract(core.REPO)
    d = os.path.join(core.GEN, "C20")
    os.makedirs(d, exist_ok=True)
    fn = os.path.join(d, "Effects.v")
    src = ("(* regenerated from %s on every run by harness/effects_extract.py *)\n"
           "From Coq Require Import List String.\nFrom LaPyV Require Import Chk.EffectsRules.\nImport ListNotations.\nOpen Scope string_scope.\n"
           "Definition table : list fentry := %s.\n"
           "Theorem C20_effects_table_ok : effects_ok table = true.\nProof. vm_compute. reflexivity. Qed.\n"
           "Theorem C20_effects_table_spec : Forall entry_spec table.\nProof. exact (effects_ok_sound table C20_effects_table_ok). Qed.\n"
           "Print Assumptions C20_effects_table_spec.\n") % (core.REPO, effects_extract.to_coq(table))
    open(fn, "w").write(src)
    rc, so, se, _ = core._run(f"timeout 300 coqc -Q theories LaPyV -w -notation-overridden gen/C20/Effects.v", cwd=core.COQ, timeout=330)
    res = {"obligations": 2, "discharged": 0, "broken": [], "notes": [f"effects table: {len(table)} public functions, "
           f"{sum(len(e) for *_, e in table)} effects"]}
    if rc == 0 and "Closed under the global context" in so:
        res["discharged"] = 2
    else:
        # name the offending entries (mirror of entry_ok, for the message only; the verdict is Coq's)
        offenders = []
        for mod, cls, name, params, effs in table:
            es = [e for *_, e in effs]
            plain = name != "__init__" and not name.endswith("_")
            for e in es:
                if e[0] == "Unknown" or (e[0] == "StoreInto" and e[1].startswith("param:")) or \
                   (plain and (e[0] in ("StoreInto", "CallMutator") or (e[0] == "AssignAttr" and e[2] in ("v", "t")))):
                    offenders.append(f"{mod}.{cls + '.' if cls else ''}{name}: {e}")
            if name.endswith("_") and cls in ("TriaMesh", "TetMesh"):
                pending = False
                for e in es:
                    if (e[0] == "AssignAttr" and e[1] == "self" and e[2] == "t") or (e[0] == "StoreInto" and e[1] == "self.t"):
                        pending = True
                    elif e[0] == "CallInit":
                        pending = False
                if pending:
                    offenders.append(f"{mod}.{cls}.{name}: elements written without a final self.__init__")
        res["broken"].append("effects theorem C20_effects_table_ok over the regenerated table fails: " + ("; ".join(offenders[:6]) or (se + so)[-300:]))
    if problems:
        res["broken"].append("effects extractor: " + "; ".join(problems))
    return res
