"""C18  Spherical conformal map: unit sphere, orientation kept, exact building blocks."""
import contextlib
import io
import math

import numpy as np

from .. import core, gen_mesh as gm

ID = "C18"
LIMIT = 180.0
RULE = ("(stereo) random points on the sphere / in the plane incl. far and near-pole points; (beltrami) planar Delaunay / grid meshes, "
        "both windings, x random complex a, b with |b| < |a| x random isometric embeddings of the target, plus non-planar meshes "
        "(ValueError); (lbs) planar grids whose column x = 0 is an interface, jittered elsewhere, x coefficient pairs (mu1, mu2), all "
        "boundary vertices as landmarks; (scm) closed genus-0 meshes (ellipsoids level 1-2, bumpy spheres, refined cube/octahedron, "
        "jitter, both orientations) with one rotated+translated+scaled copy each; meshes of Euler characteristic 0, 1, 3, 4 (torus, annulus, open grid, sphere with one triangle removed, sphere + disk, two spheres: ValueError); Moebius area "
        "correction on a subset. distinct = hash of the case; non-trivial = every case except gate-only ones")
TRUSTED = ["SuperLU (splu) is an oracle: the answers returned through linear_beltrami_solver are verified inside Coq against the model's "
           "system (residual, landmarks); scipy.optimize.minimize is an oracle checked only through the objective",
           "the north-pole stage of spherical_conformal_map (Laplace solve on the cut mesh, rescaling) is not modelled"]
ASSUMPTIONS = ["similarity invariance is compared only when the most regular triangle is unique (quality gap > 1e-9): the algorithm "
               "starts from np.argmax of the triangle qualities"]
EXHAUSTIVE = {"quick": False, "thorough": False}
SHARD_BYTES = 150_000

COQ_HEADER = """From Coq Require Import List PrimFloat String.
From LaPyV Require Import Base.Scalar Base.Vec3 Base.ListAux Model.TetMesh Model.TriaAdj Model.Conformal Chk.Cmp Chk.C09 Chk.C18.
Import ListNotations. Open Scope float_scope."""
COQ_CHECK = "check_c18_multi"
COQ_LABELS = ["stereographic_pair", "beltrami_coefficient", "solver_answers_satisfy_model_systems_and_landmarks", "euler_gate_and_landmark_choice",
              "final_projection_south_plane_and_moebius_image"]


def _cx(rng, r=1.0):
    return complex(rng.uniform(-r, r), rng.uniform(-r, r))


def _planar_mesh(rng, tier):
    if rng.random() < 0.5:
        v, t = gm.delaunay2d(rng.randint(6, 14 if tier == "quick" else 30), rng, None)
    else:
        v, t = gm.grid(rng.randint(2, 4), rng.randint(2, 4), rng, None, rng.choice(["alt", "rand"]))
        v = [[p[0] + rng.uniform(-0.2, 0.2), p[1] + rng.uniform(-0.2, 0.2), 0.0] for p in v]
    v, t = gm.compact(v, t)
    v = [[p[0], p[1], 0.0] for p in v]
    return v, t


def _interface_grid(rng):
    m, n = rng.randint(1, 3), rng.randint(2, 4)
    v, t = gm.grid(2 * m, n, rng, None, rng.choice(["alt", "rand"]))
    P = np.array(v, dtype=float)
    P[:, 0] -= m                                  # column x = 0 is the interface
    xs, ys = P[:, 0], P[:, 1]
    bnd = (np.abs(xs - xs.min()) < 1e-12) | (np.abs(xs - xs.max()) < 1e-12) | (np.abs(ys - ys.min()) < 1e-12) | (np.abs(ys - ys.max()) < 1e-12)
    for i in range(len(P)):
        if not bnd[i]:
            if abs(P[i, 0]) > 1e-12:
                P[i, 0] += rng.uniform(-0.25, 0.25)
            P[i, 1] += rng.uniform(-0.25, 0.25)
    P[:, 2] = 0.0
    return P.tolist(), t, [int(i) for i in np.where(bnd)[0]]


def _closed_mesh(rng, tier):
    fam = rng.choice(["ellipsoid", "ellipsoid", "bumpy", "cube", "octa", "ellipsoid_octa"])
    big = tier != "quick" and rng.random() < 0.4
    if fam == "ellipsoid":
        v, t = gm.ellipsoid(2 if big else 1, (rng.uniform(0.7, 1.0), rng.uniform(1.1, 1.8), rng.uniform(0.9, 1.3)), "ico")
    elif fam == "ellipsoid_octa":
        v, t = gm.ellipsoid(2, (1.0, rng.uniform(1.1, 1.5), rng.uniform(0.9, 1.2)), "octa")
    elif fam == "bumpy":
        from .c19 import star
        v, t = star(2 if big else 1, rng, rng.uniform(0.1, 0.25))
    elif fam == "cube":
        v, t = gm.cube_surface()
        v, t = gm.refine(v, t)
        if big:
            v, t = gm.refine(v, t)
    else:
        v, t = gm.octahedron()
        v, t = gm.refine(v, t)
        v, t = gm.refine(v, t)
    v = gm.jitter(v, rng, 0.015)
    return fam, v, t


def generate(rng, tier):
    cases = []
    q = tier == "quick"
    for i_st in range(6 if q else 40):
        us = []
        for _ in range(8):
            p = np.array([rng.gauss(0, 1) for _ in range(3)])
            p /= np.linalg.norm(p)
            if rng.random() < 0.2:
                p = np.array([1e-4 * rng.uniform(-1, 1), 1e-4 * rng.uniform(-1, 1), rng.choice([-1.0, 1.0])])
                p /= np.linalg.norm(p)
                if p[2] > 0:
                    p[2] = math.sqrt(max(0.0, 1 - p[0] ** 2 - p[1] ** 2))
            us.append(p.tolist())
        ws = [[rng.uniform(-3, 3) * rng.choice([1, 1, 1e-3, 50]), rng.uniform(-3, 3)] for _ in range(8)]
        wdt = ["float64", "int64", "float32", "float64"][i_st % 4]          # every form in every run, whatever the seed
        if wdt == "int64":
            ws = [[float(rng.randint(-6, 6)), float(rng.randint(-6, 6))] for _ in range(8)]     # lattice / pixel-grid points
        elif wdt == "float32":
            ws = np.array(ws, dtype=np.float32).astype(float).tolist()
        cases.append({"kind": "stereo", "us": us, "ws": ws, "wdtype": wdt})
    for i_bc in range(14 if q else 120):
        v, t = _planar_mesh(rng, tier)
        if rng.random() < 0.4:
            t = [[r[0], r[2], r[1]] for r in t]
        a = _cx(rng, 2.0)
        while abs(a) < 0.2:
            a = _cx(rng, 2.0)
        b = _cx(rng, 1.0)
        b = b / max(abs(b), 1e-9) * abs(a) * rng.uniform(0.0, 0.9)
        Q = np.array(gm.random_rotation(rng))
        off = [rng.uniform(-2, 2) for _ in range(3)]
        zoff = rng.choice([0.0, 0.0, 5.0])
        nonplanar = rng.random() < 0.1
        sc = [1.0, 1e-3, 1.0, 1e-5, 200.0][i_bc % 5]
        v = [[p[0] * sc, p[1] * sc, p[2]] for p in v]
        cases.append({"kind": "beltrami", "v": [[p[0], p[1], zoff + (0.01 * i if nonplanar else 0.0)] for i, p in enumerate(v)], "t": t,
                      "a": [a.real, a.imag], "b": [b.real, b.imag], "Q": Q.tolist(), "off": off, "nonplanar": nonplanar})
    for i_lb in range(10 if q else 80):
        v, t, bnd = _interface_grid(rng)
        sc = [1.0, 1e-3, 1.0, 1e-5, 200.0][i_lb % 5]          # the equation is scale invariant
        v = [[p[0] * sc, p[1] * sc, 0.0] for p in v]
        mu1 = _cx(rng, 0.6)
        mu2 = mu1 if rng.random() < 0.3 else _cx(rng, 0.6)
        cases.append({"kind": "lbs", "v": v, "t": t, "bnd": bnd, "mu1": [mu1.real, mu1.imag], "mu2": [mu2.real, mu2.imag]})
    nscm = 8 if q else 40
    for i in range(nscm):
        fam, v, t = _closed_mesh(rng, tier)
        if len(v) > (70 if q else 170):
            continue
        if rng.random() < 0.25:
            t = [[r[0], r[2], r[1]] for r in t]
        Q = np.array(gm.random_rotation(rng))
        if np.linalg.det(Q) < 0:
            Q[:, 0] = -Q[:, 0]
        cases.append({"kind": "scm", "family": fam, "v": v, "t": t, "Q": Q.tolist(), "s": rng.choice([1.0, 0.05, 30.0]),
                      "off": [rng.uniform(-3, 3) for _ in range(3)], "mobius": i < (2 if q else 8),
                      "mobius_scale": [0.05, 1.0, 30.0][i % 3]})
    kinds = ["torus", "open", "two_spheres", "sphere_with_hole", "annulus", "sphere_and_disk"]     # Euler characteristic 0, 1, 4, 1, 0, 3
    for i in range(6 if q else 18):
        kind = kinds[i % len(kinds)]
        if kind == "torus":
            v, t = gm.torus(rng.randint(4, 6), rng.randint(3, 5))
        elif kind == "open":
            v, t = gm.grid(3, 3, rng, "smooth", "alt")
        elif kind == "sphere_with_hole":
            v, t = gm.icosahedron() if rng.random() < 0.5 else gm.ellipsoid(1)
            k = rng.randrange(len(t))
            t = [list(r) for j, r in enumerate(t) if j != k]
        elif kind == "annulus":
            v, t = gm.annulus(rng.randint(4, 7))
        elif kind == "sphere_and_disk":
            v, t = gm.union([gm.octahedron(), gm.grid(2, 2)])
        else:
            v, t = gm.union([gm.octahedron(), gm.tetra_surface()])
        cases.append({"kind": "gate", "family": kind, "v": v, "t": t})
    return cases


def _affine(P2, a, b):
    z = P2[:, 0] + 1j * P2[:, 1]
    return a * z + b * np.conj(z)


def _pairs(z):
    return [[float(np.real(x)), float(np.imag(x))] for x in z]


def run_impl(case):
    from lapy import TriaMesh, conformal
    out = {}
    sink = io.StringIO()
    k = case["kind"]
    with contextlib.redirect_stdout(sink):
        if k == "stereo":
            us, ws = np.array(case["us"]), np.array(case["ws"]).astype(case.get("wdtype", "float64"))
            out["st"] = _pairs(conformal.stereographic(us))
            out["inv"] = np.asarray(conformal.inverse_stereographic(ws), float).tolist()
            out["inv_c"] = np.asarray(conformal.inverse_stereographic(ws[:, 0] + 1j * ws[:, 1]), float).tolist()
            out["round"] = _pairs(conformal.stereographic(np.asarray(conformal.inverse_stereographic(ws), float)))
        elif k == "beltrami":
            P = np.array(case["v"])
            m = TriaMesh(P, np.array(case["t"]))
            f = _affine(P[:, :2], complex(*case["a"]), complex(*case["b"]))
            tgt = np.column_stack([f.real, f.imag, np.zeros(len(P))]) @ np.array(case["Q"]).T + np.array(case["off"])
            out["mapping"] = tgt.tolist()
            try:
                out["mu"] = _pairs(conformal.beltrami_coefficient(m, tgt))
            except Exception as e:
                out["mu"] = core.errkind(e)
        elif k == "lbs":
            P = np.array(case["v"])
            T = np.array(case["t"])
            m = TriaMesh(P, T)
            mu1, mu2 = complex(*case["mu1"]), complex(*case["mu2"])
            cx = P[T].mean(1)[:, 0]
            mu = np.where(cx < 0, mu1, mu2)
            a2 = (1 - mu1) / (1 - mu2)
            z = P[:, 0] + 1j * P[:, 1]
            f = np.where(P[:, 0] <= 0, z + mu1 * np.conj(z), a2 * z + mu2 * a2 * np.conj(z))
            lm = np.array(case["bnd"])
            tg = np.column_stack([f[lm].real, f[lm].imag, np.zeros(len(lm))])
            out["mu"] = _pairs(mu)
            out["target"] = _pairs(f[lm])
            out["exact"] = _pairs(f)
            try:
                out["x"] = np.asarray(conformal.linear_beltrami_solver(m, mu, lm, tg), float).tolist()
            except Exception as e:
                out["x"] = core.errkind(e) + ":" + str(e)[:80]
        elif k == "gate":
            m = TriaMesh(np.array(case["v"], float), np.array(case["t"]))
            try:
                conformal.spherical_conformal_map(m)
                out["raised"] = None
            except Exception as e:
                out["raised"] = core.errkind(e)
        else:
            P = np.array(case["v"], float)
            T = np.array(case["t"])
            m = TriaMesh(P.copy(), T.copy())
            rec = {"bel": [], "lbs": [], "solve": []}
            ob, ol = conformal.beltrami_coefficient, conformal.linear_beltrami_solver
            osv = conformal._sparse_symmetric_solve

            def wsv(A, b, **kw):
                x = osv(A, b, **kw)
                rec["solve"].append(np.squeeze(np.array(x)).copy())
                return x

            def wb(tr, mp):
                r = ob(tr, mp)
                rec["bel"].append((np.array(tr.v, float).copy(), np.array(mp, float).copy(), np.array(r).copy()))
                return r

            def wl(tr, mu, lmk, tg, **kw):
                r = ol(tr, mu, lmk, tg, **kw)
                rec["lbs"].append((np.array(tr.v, float).copy(), np.array(mu).copy(), np.array(lmk).copy(), np.array(tg, float).copy(), np.array(r, float).copy()))
                return r
            conformal.beltrami_coefficient, conformal.linear_beltrami_solver = wb, wl
            conformal._sparse_symmetric_solve = wsv
            try:
                S = conformal.spherical_conformal_map(m)
                out["S"] = np.asarray(S, float).tolist()
            except Exception as e:
                out["S"] = core.errkind(e) + ":" + str(e)[:100]
            finally:
                conformal.beltrami_coefficient, conformal.linear_beltrami_solver = ob, ol
                conformal._sparse_symmetric_solve = osv
            if rec["solve"] and rec["lbs"]:
                out["z0"] = _pairs(rec["solve"][0])
                out["lm_first"] = [int(x) for x in rec["lbs"][0][2]]
            out["untouched"] = bool(np.array_equal(m.v, P) and np.array_equal(m.t, T))
            out["vol_in"] = float(m.volume()) if m.is_oriented() else None
            q = m.tria_qualities()
            qs = np.sort(q)
            out["bigtri_unique"] = bool(qs[-1] - qs[-2] > 1e-9)
            if rec["bel"]:
                pv, mp, mu = rec["bel"][0]
                out["bel"] = {"v": pv.tolist(), "m": mp.tolist(), "mu": _pairs(mu)}
            if rec["lbs"]:
                pv, mu, lmk, tg, r = rec["lbs"][-1]
                out["lbs"] = {"v": pv.tolist(), "mu": _pairs(mu), "lm": [int(x) for x in lmk], "tg": tg[:, :2].tolist(), "x": r.tolist()}
            if not isinstance(out["S"], str):
                out["vol_out"] = float(TriaMesh(np.array(out["S"]), T).volume()) if m.is_oriented() else None
                P2 = case["s"] * (P @ np.array(case["Q"]).T) + np.array(case["off"])
                try:
                    S2 = conformal.spherical_conformal_map(TriaMesh(P2, T.copy()))
                    out["S2"] = np.asarray(S2, float).tolist()
                except Exception as e:
                    out["S2"] = core.errkind(e) + ":" + str(e)[:100]
                if case["mobius"]:
                    try:
                        # the correction is also run on a uniformly scaled copy of the mesh (the objective uses relative areas)
                        msc = TriaMesh(P * case.get("mobius_scale", 1.0), T.copy())
                        Sm, res = conformal.mobius_area_correction_spherical(msc, np.array(out["S"]))
                        out["Sm"] = np.asarray(Sm, float).tolist()
                        out["mobius_x"] = [float(q) for q in res.x]
                        at = msc.tria_areas()
                        at = at / at.sum()

                        def obj(X):
                            a = TriaMesh(np.array(X), T).tria_areas()
                            a = a / a.sum()
                            d = np.abs(np.log(a / at))
                            return float(d[np.isfinite(d)].mean())
                        out["obj_before"], out["obj_after"] = obj(out["S"]), obj(out["Sm"])
                    except Exception as e:
                        out["Sm"] = core.errkind(e) + ":" + str(e)[:100]
    return out


def _cl(z):
    return "[" + "; ".join("(%s, %s)" % (core.cfloat(a), core.cfloat(b)) for a, b in z) + "]"


def _res(x, f):
    if isinstance(x, str):
        return "(Err %s)" % ("ValueError" if x.startswith("ValueError") else "OtherError")
    return "(Ok %s)" % f(x)


TOL = "0x1.12e0be826d695p-30"


def coq_case(case, out):
    k = case["kind"]
    if k == "stereo":
        return "[CStereo %s %s %s %s %s]" % (TOL if case.get("wdtype") != "float32" else "0x1.4f8b588e368f1p-17", core.cv3list(case["us"]), _cl(case["ws"]), _cl(out["st"]), core.cv3list(out["inv"]))
    if k == "beltrami":
        return "[CBeltrami %s %s %s %s %s]" % ("0x1.ad7f29abcaf48p-24", core.cv3list(case["v"]), core.ctuples(case["t"]), core.cv3list(out["mapping"]),
                                             _res(out["mu"], _cl))
    if k == "lbs":
        lm = "[" + "; ".join("(%d%%nat, (%s, %s))" % (i, core.cfloat(a), core.cfloat(b)) for i, (a, b) in zip(case["bnd"], out["target"])) + "]"
        return "[CLbs %s %s %s %s %s %s]" % ("0x1.ad7f29abcaf48p-24", core.cv3list(case["v"]), core.ctuples(case["t"]), _cl(out["mu"]), lm,
                                            _res(out["x"], _cl))
    if k == "gate":
        return "[CGate %s %s]" % (core.ctuples(case["t"]), core.cbool(out["raised"] == "ValueError"))
    parts = ["CGate %s false" % core.ctuples(case["t"])] if not isinstance(out["S"], str) else []
    if "bel" in out:
        parts.append("CBeltrami %s %s %s %s (Ok %s)" % ("0x1.ad7f29abcaf48p-24", core.cv3list(out["bel"]["v"]), core.ctuples(case["t"]),
                                                       core.cv3list(out["bel"]["m"]), _cl(out["bel"]["mu"])))
    if "lbs" in out:
        L = out["lbs"]
        lm = "[" + "; ".join("(%d%%nat, (%s, %s))" % (i, core.cfloat(a), core.cfloat(b)) for i, (a, b) in zip(L["lm"], L["tg"])) + "]"
        parts.append("CLbs %s %s %s %s %s (Ok %s)" % ("0x1.ad7f29abcaf48p-24", core.cv3list(L["v"]), core.ctuples(case["t"]), _cl(L["mu"]), lm, _cl(L["x"])))
        if not isinstance(out["S"], str) and not np.isnan(np.sum(L["x"])):
            parts.append("CFinal %s %s %s" % (TOL, _cl(L["x"]), core.cv3list(out["S"])))
    if "z0" in out and "bel" in out and out["bigtri_unique"] and not isinstance(out["S"], str) and np.all(np.isfinite(np.array(out["z0"]))):
        parts.append("CNorth %s %s %s %s %s %s" % ("0x1.ad7f29abcaf48p-24", core.cv3list(case["v"]), core.ctuples(case["t"]), _cl(out["z0"]),
                                                  core.cv3list(out["bel"]["v"]), core.cnlist(out["lm_first"])))
    if "mobius_x" in out and not isinstance(out.get("Sm"), str):
        x = out["mobius_x"]
        parts.append("CMobius %s (%s, %s) (%s, %s) (%s, %s) (%s, %s) %s %s" % (
            "0x1.ad7f29abcaf48p-24", *[core.cfloat(q) for q in x], core.cv3list(out["S"]), core.cv3list(out["Sm"])))
    if not parts:
        return None
    return "[" + "; ".join(parts) + "]"


def _cross_ratio(z, idx):
    a, b, c, d = (z[i] for i in idx)
    return (a - c) * (b - d) / ((a - d) * (b - c))


def oracle(case, out):
    V = []
    def bad(clause, detail, wc=None):
        V.append({"clause": clause, "detail": detail, "witness_class": wc})
    k = case["kind"]
    if k == "stereo":
        inv = np.array(out["inv"])
        f32 = case.get("wdtype") == "float32"
        if np.abs(np.linalg.norm(inv, axis=1) - 1).max() > (1e-5 if f32 else 1e-12):
            bad("inverse_stereographic_lands_on_unit_sphere", str(np.abs(np.linalg.norm(inv, axis=1) - 1).max()))
        if np.abs(inv - np.array(out["inv_c"])).max() > (1e-5 if f32 else 0):
            bad("inverse_stereographic_complex_and_two_column_agree", "differ")
        ws = np.array(case["ws"])
        rt = np.array(out["round"])
        if (np.abs(rt - ws).max(1) > (1e-5 if f32 else 1e-9) * (1 + np.abs(ws).max(1) ** 3)).any():
            bad("stereographic_inverts_inverse_stereographic", f"{np.abs(rt - ws).max()}")
        return V
    if k == "beltrami":
        if case["nonplanar"]:
            if out["mu"] != "ValueError":
                bad("beltrami_nonplanar_mesh_raises_ValueError", str(out["mu"])[:60])
            return V
        if isinstance(out["mu"], str):
            bad("beltrami_no_exception", out["mu"])
            return V
        mu = np.array([complex(*p) for p in out["mu"]])
        ref = complex(*case["b"]) / complex(*case["a"])
        if np.abs(mu - ref).max() > 1e-7:
            bad("beltrami_of_affine_map_is_b_over_a", f"max |mu - b/a| = {np.abs(mu - ref).max()} (b/a = {ref})")
        return V
    if k == "lbs":
        if isinstance(out["x"], str):
            bad("linear_beltrami_solver_no_exception", out["x"])
            return V
        x = np.array(out["x"])
        ex = np.array(out["exact"])
        lm = np.array(case["bnd"])
        if np.abs(x[lm] - ex[lm]).max() > 1e-12 * (1 + np.abs(ex).max()):
            bad("landmarks_reproduced_exactly", f"{np.abs(x[lm] - ex[lm]).max()}")
        if np.abs(x - ex).max() > 1e-7 * (1 + np.abs(ex).max()):
            bad("piecewise_affine_map_reproduced", f"max deviation {np.abs(x - ex).max()}")
        return V
    if k == "gate":
        if out["raised"] != "ValueError":
            bad("non_genus0_raises_ValueError", f"{case['family']}: {out['raised']}")
        return V
    # scm
    if not out["untouched"]:
        bad("argument_untouched", "mesh modified")
    if isinstance(out["S"], str):
        bad("spherical_conformal_map_no_exception_on_genus0", out["S"])
        return V
    S = np.array(out["S"])
    if not np.all(np.isfinite(S)):
        bad("map_finite", "nan/inf")
        return V
    if S.shape != (len(case["v"]), 3):
        bad("one_point_per_vertex", str(S.shape))
        return V
    if np.abs(np.linalg.norm(S, axis=1) - 1).max() > 1e-9:
        bad("map_on_unit_sphere", f"{np.abs(np.linalg.norm(S, axis=1) - 1).max()}")
    if out["vol_in"] is not None and out["vol_out"] is not None:
        if out["vol_in"] > 0 and not out["vol_out"] > 0:
            # on very coarse meshes the linear method may send (nearly) all vertices to one pole: volume ~ 0 of either sign
            wc = "collapsed_coarse_mesh" if (len(case["v"]) <= 42 and abs(out["vol_out"]) < 0.05) else None
            bad("orientation_preserved", f"input volume {out['vol_in']}, sphere mesh volume {out['vol_out']}", wc)
        # nothing is claimed for inward-oriented inputs: the construction orients the sphere by the triangle order
    if out["bigtri_unique"]:
        if isinstance(out["S2"], str):
            bad("similarity_copy_no_exception", out["S2"])
        elif np.abs(np.array(out["S2"]) - S).max() > 1e-6:
            bad("unchanged_under_rotation_translation_scaling", f"max difference {np.abs(np.array(out['S2']) - S).max()}")
    if "Sm" in out:
        if isinstance(out["Sm"], str):
            bad("mobius_correction_no_exception", out["Sm"])
        else:
            Sm = np.array(out["Sm"])
            if np.abs(np.linalg.norm(Sm, axis=1) - 1).max() > 1e-9:
                bad("mobius_result_on_unit_sphere", "norm")
            if out["obj_after"] > out["obj_before"] * (1 + 1e-9) + 1e-12:
                bad("mobius_objective_not_larger", f"{out['obj_before']} -> {out['obj_after']}")
            z0 = S[:, 0] / (1 - S[:, 2]) + 1j * S[:, 1] / (1 - S[:, 2])
            z1 = Sm[:, 0] / (1 - Sm[:, 2]) + 1j * Sm[:, 1] / (1 - Sm[:, 2])
            n = len(z0)
            worst = 0.0
            for q in range(12):
                idx = [(q * 7 + j * (n // 4) + j) % n for j in range(4)]
                if len(set(idx)) < 4:
                    continue
                c0, c1 = _cross_ratio(z0, idx), _cross_ratio(z1, idx)
                if np.isfinite(c0) and np.isfinite(c1) and abs(c0) < 1e6:
                    worst = max(worst, abs(c0 - c1) / (1 + abs(c0)))
            if worst > 1e-6:
                bad("mobius_keeps_cross_ratios", f"relative change {worst}")
    return V


def nontrivial(case, out):
    return case["kind"] != "gate"
