import argparse
import os
import sys

from . import core


def main():
    ap = argparse.ArgumentParser()
    ap.add_argument("pid", nargs="?")
    ap.add_argument("--tier", default=os.environ.get("VERIF_TIER", "quick"), choices=["quick", "thorough"])
    ap.add_argument("--replay")
    ap.add_argument("--setup", action="store_true")
    a = ap.parse_args()
    if a.setup:
        ok, log = core.coq_build()
        sys.stdout.write(log[-3000:])
        forb = core.scan_forbidden()
        if forb:
            print("forbidden:", forb)
        sys.exit(0 if ok and not forb else 1)
    seed = int(os.environ.get("VERIF_SEED", "20261001"))
    from . import driver
    sys.exit(driver.run_property(a.pid, a.tier, seed, a.replay))


if __name__ == "__main__":
    main()
