"""Mesh generators shared by all properties.  Every random choice comes from the
`random.Random` instance passed in, so a seed reproduces a run exactly.
Meshes are plain lists (JSON-able): v = [[x,y,z],...], t = [[i,j,k],...]."""
import itertools
import math

import numpy as np


# ------------------------------------------------------------------ triangle base meshes
def grid(m, n, rng=None, height=None, diag="alt"):
    """(m x n) cells, oriented counter-clockwise seen from +z."""
    v = []
    for j in range(n + 1):
        for i in range(m + 1):
            z = 0.0
            if height == "smooth":
                z = 0.3 * math.sin(1.3 * i) * math.cos(0.9 * j) + 0.1 * i
            elif height == "random" and rng is not None:
                z = rng.uniform(-0.4, 0.4)
            v.append([float(i), float(j), z])
    t = []
    idx = lambda i, j: j * (m + 1) + i
    for j in range(n):
        for i in range(m):
            a, b, c, d = idx(i, j), idx(i + 1, j), idx(i + 1, j + 1), idx(i, j + 1)
            flip = (diag == "alt" and (i + j) % 2 == 1) or (diag == "rand" and rng is not None and rng.random() < 0.5)
            if flip:
                t += [[a, b, d], [b, c, d]]
            else:
                t += [[a, b, c], [a, c, d]]
    return v, t


def fan(k, closed=False):
    v = [[0.0, 0.0, 0.0]] + [[math.cos(2 * math.pi * i / (k + (0 if closed else 1))), math.sin(2 * math.pi * i / (k + (0 if closed else 1))), 0.0] for i in range(k + (0 if closed else 1))]
    n = len(v) - 1
    t = [[0, 1 + i, 1 + (i + 1) % n] for i in range(k)]
    return v, t


def annulus(k):
    v = [[math.cos(2 * math.pi * i / k), math.sin(2 * math.pi * i / k), 0.0] for i in range(k)]
    v += [[2 * math.cos(2 * math.pi * i / k), 2 * math.sin(2 * math.pi * i / k), 0.1 * (i % 2)] for i in range(k)]
    t = []
    for i in range(k):
        j = (i + 1) % k
        t += [[i, k + i, k + j], [i, k + j, j]]
    return v, t


def moebius(k):
    """Non-orientable strip with k quads (k >= 3)."""
    v = []
    for i in range(k):
        a = 2 * math.pi * i / k
        for s in (-0.4, 0.4):
            r = 1 + s * math.cos(a / 2)
            v.append([r * math.cos(a), r * math.sin(a), s * math.sin(a / 2)])
    t = []
    for i in range(k):
        a0, a1 = 2 * i, 2 * i + 1
        if i + 1 < k:
            b0, b1 = 2 * (i + 1), 2 * (i + 1) + 1
        else:
            b0, b1 = 1, 0
        t += [[a0, b0, b1], [a0, b1, a1]]
    return v, t


def tetra_surface():
    v = [[0.0, 0.0, 0.0], [1.0, 0.0, 0.0], [0.0, 1.0, 0.0], [0.0, 0.0, 1.0]]
    t = [[0, 2, 1], [0, 1, 3], [1, 2, 3], [0, 3, 2]]
    return v, t


def octahedron():
    v = [[1.0, 0, 0], [-1.0, 0, 0], [0, 1.0, 0], [0, -1.0, 0], [0, 0, 1.0], [0, 0, -1.0]]
    v = [[float(c) for c in p] for p in v]
    t = [[0, 2, 4], [2, 1, 4], [1, 3, 4], [3, 0, 4], [2, 0, 5], [1, 2, 5], [3, 1, 5], [0, 3, 5]]
    return v, t


def cube_surface():
    v = [[float(x), float(y), float(z)] for z in (0, 1) for y in (0, 1) for x in (0, 1)]
    t = [[0, 2, 1], [1, 2, 3], [4, 5, 6], [5, 7, 6], [0, 1, 4], [1, 5, 4],
         [2, 6, 3], [3, 6, 7], [0, 4, 2], [2, 4, 6], [1, 3, 5], [3, 7, 5]]
    return v, t


def icosahedron():
    p = (1 + 5 ** 0.5) / 2
    v = [[-1, p, 0], [1, p, 0], [-1, -p, 0], [1, -p, 0], [0, -1, p], [0, 1, p], [0, -1, -p], [0, 1, -p],
         [p, 0, -1], [p, 0, 1], [-p, 0, -1], [-p, 0, 1]]
    v = [[float(c) for c in q] for q in v]
    t = [[0, 11, 5], [0, 5, 1], [0, 1, 7], [0, 7, 10], [0, 10, 11], [1, 5, 9], [5, 11, 4], [11, 10, 2], [10, 7, 6],
         [7, 1, 8], [3, 9, 4], [3, 4, 2], [3, 2, 6], [3, 6, 8], [3, 8, 9], [4, 9, 5], [2, 4, 11], [6, 2, 10],
         [8, 6, 7], [9, 8, 1]]
    return v, t


def torus(m, n, R=2.0, r=0.7):
    v = []
    for j in range(n):
        for i in range(m):
            a, b = 2 * math.pi * i / m, 2 * math.pi * j / n
            v.append([(R + r * math.cos(b)) * math.cos(a), (R + r * math.cos(b)) * math.sin(a), r * math.sin(b)])
    t = []
    idx = lambda i, j: (j % n) * m + (i % m)
    for j in range(n):
        for i in range(m):
            a, b, c, d = idx(i, j), idx(i + 1, j), idx(i + 1, j + 1), idx(i, j + 1)
            t += [[a, b, c], [a, c, d]]
    return v, t


def ellipsoid(level=1, axes=(1.0, 1.6, 1.2), base="ico"):
    v, t = icosahedron() if base == "ico" else octahedron()
    for _ in range(level):
        v, t = refine(v, t)
    v = np.array(v)
    v = v / np.linalg.norm(v, axis=1)[:, None]
    v = v * np.array(axes)[None, :]
    return v.tolist(), t


def refine(v, t):
    """Reference 1-to-4 subdivision (independent of lapy)."""
    v = [list(p) for p in v]
    mid = {}
    tn = []
    def m(a, b):
        k = (min(a, b), max(a, b))
        if k not in mid:
            mid[k] = len(v)
            v.append([(v[a][c] + v[b][c]) / 2 for c in range(3)])
        return mid[k]
    for a, b, c in t:
        ab, bc, ca = m(a, b), m(b, c), m(c, a)
        tn += [[a, ab, ca], [b, bc, ab], [c, ca, bc], [ab, bc, ca]]
    return v, tn


def book(k):
    """k triangles sharing one edge (non-manifold for k >= 3)."""
    v = [[0.0, 0.0, 0.0], [1.0, 0.0, 0.0]]
    t = []
    for i in range(k):
        a = 2 * math.pi * i / k
        v.append([0.5, math.cos(a), math.sin(a)])
        t.append([0, 1, 2 + i] if i % 2 == 0 else [1, 0, 2 + i])
    return v, t


def delaunay2d(npts, rng, height="random"):
    from scipy.spatial import Delaunay
    pts = np.array([[rng.uniform(0, 3), rng.uniform(0, 3)] for _ in range(npts)])
    tri = Delaunay(pts)
    t = tri.simplices.tolist()
    # orient counter-clockwise
    tt = []
    for a, b, c in t:
        d = (pts[b][0] - pts[a][0]) * (pts[c][1] - pts[a][1]) - (pts[b][1] - pts[a][1]) * (pts[c][0] - pts[a][0])
        tt.append([a, b, c] if d > 0 else [a, c, b])
    used = sorted(set(i for r in tt for i in r))
    remap = {o: n for n, o in enumerate(used)}
    tt = [[remap[i] for i in r] for r in tt]
    v = []
    for i in used:
        z = rng.uniform(-0.5, 0.5) if height == "random" else (0.0 if height is None else 0.2 * math.sin(2 * pts[i][0]) + 0.1 * pts[i][1] ** 2)
        v.append([float(pts[i][0]), float(pts[i][1]), float(z)])
    return v, tt


def union(meshes, gap=4.0):
    v, t = [], []
    for k, (vv, tt) in enumerate(meshes):
        off = len(v)
        v += [[p[0] + gap * k, p[1], p[2]] for p in vv]
        t += [[i + off for i in r] for r in tt]
    return v, t


# ------------------------------------------------------------------ transformations
def flip_some(t, rng, p=0.3):
    out, flipped = [], []
    for r in t:
        if rng.random() < p:
            out.append([r[1], r[0]] + list(r[2:]))
            flipped.append(True)
        else:
            out.append(list(r))
            flipped.append(False)
    return out, flipped


def rotate_rows(t, rng):
    out = []
    for r in t:
        k = rng.randrange(3)
        r3 = list(r[:3])
        out.append(r3[k:] + r3[:k] + list(r[3:]))
    return out


def relabel(v, t, rng):
    n = len(v)
    perm = list(range(n))
    rng.shuffle(perm)          # new index of old vertex i is perm[i]
    vn = [None] * n
    for i, p in enumerate(perm):
        vn[p] = list(v[i])
    return vn, [[perm[i] for i in r] for r in t], perm


def reorder(t, rng):
    idx = list(range(len(t)))
    rng.shuffle(idx)
    return [list(t[i]) for i in idx], idx


def random_rotation(rng):
    a = np.array([[rng.gauss(0, 1) for _ in range(3)] for _ in range(3)])
    q, r = np.linalg.qr(a)
    q = q * np.sign(np.diag(r))[None, :]
    return q


def similarity(v, rng, reflect=False, scale=None):
    q = random_rotation(rng)
    if reflect:
        q[:, 0] = -q[:, 0]
    s = scale if scale is not None else rng.uniform(0.3, 3.0)
    b = np.array([rng.uniform(-3, 3) for _ in range(3)])
    vn = s * (np.array(v) @ q.T) + b[None, :]
    return vn.tolist(), q.tolist(), s, b.tolist()


def add_unused(v, t, rng, where=None):
    """Insert an unused vertex (leading / interior / trailing)."""
    where = where or rng.choice(["lead", "mid", "trail"])
    n = len(v)
    pos = {"lead": 0, "mid": n // 2, "trail": n}[where]
    vn = [list(p) for p in v[:pos]] + [[rng.uniform(-1, 1), rng.uniform(-1, 1), rng.uniform(-1, 1)]] + [list(p) for p in v[pos:]]
    tn = [[i + 1 if i >= pos else i for i in r] for r in t]
    return vn, tn


def jitter(v, rng, s=0.05):
    return [[c + rng.uniform(-s, s) for c in p] for p in v]


TRIA_FAMILIES = ["grid", "gridh", "fan", "annulus", "tetra", "octa", "cube", "ico", "torus", "delaunay", "union", "book",
                 "moebius", "ellipsoid"]


def tria_family(name, rng, small=True):
    if name == "grid":
        return grid(rng.randint(1, 3 if small else 6), rng.randint(1, 3 if small else 6), rng, None, rng.choice(["alt", "rand", "none"]))
    if name == "gridh":
        return grid(rng.randint(1, 3 if small else 6), rng.randint(1, 3 if small else 6), rng, rng.choice(["smooth", "random"]), rng.choice(["alt", "rand"]))
    if name == "fan":
        return fan(rng.randint(3, 7), closed=rng.random() < 0.4)
    if name == "annulus":
        return annulus(rng.randint(3, 6))
    if name == "tetra":
        return tetra_surface()
    if name == "octa":
        return octahedron()
    if name == "cube":
        return cube_surface()
    if name == "ico":
        return icosahedron()
    if name == "torus":
        return torus(rng.randint(3, 5), rng.randint(3, 4))
    if name == "delaunay":
        return delaunay2d(rng.randint(5, 12 if small else 40), rng, rng.choice(["random", "smooth", None]))
    if name == "union":
        a = tria_family(rng.choice(["tetra", "octa", "fan", "grid", "cube"]), rng)
        b = tria_family(rng.choice(["tetra", "octa", "fan", "grid"]), rng)
        return union([a, b])
    if name == "book":
        return book(rng.randint(3, 5))
    if name == "moebius":
        return moebius(rng.randint(3, 6))
    if name == "ellipsoid":
        return ellipsoid(1 if small else 2, (1.0, rng.uniform(1.2, 2.0), rng.uniform(0.8, 1.2)), rng.choice(["ico", "octa"]))
    raise KeyError(name)


def is_manifold_oriented(t):
    d = {}
    for r in t:
        for a, b in ((r[0], r[1]), (r[1], r[2]), (r[2], r[0])):
            d[(a, b)] = d.get((a, b), 0) + 1
    if max(d.values()) > 1:
        return False
    return True


# ------------------------------------------------------------------ tetrahedral meshes
KUHN = [(0, 1, 3, 7), (0, 1, 5, 7), (0, 2, 3, 7), (0, 2, 6, 7), (0, 4, 5, 7), (0, 4, 6, 7)]


def kuhn_box(a, b, c):
    """Kuhn subdivision of an a x b x c box (6 tets per cell, conforming)."""
    idx = lambda i, j, k: (k * (b + 1) + j) * (a + 1) + i
    v = [[float(i), float(j), float(k)] for k in range(c + 1) for j in range(b + 1) for i in range(a + 1)]
    t = []
    for k in range(c):
        for j in range(b):
            for i in range(a):
                corner = [idx(i + (q & 1), j + ((q >> 1) & 1), k + ((q >> 2) & 1)) for q in range(8)]
                for tet in KUHN:
                    t.append([corner[q] for q in tet])
    return v, t


def tet_vol6(v, r):
    p = np.array([v[i] for i in r], dtype=float)
    return float(np.dot(p[3] - p[0], np.cross(p[1] - p[0], p[2] - p[0])))


def orient_tets(v, t, positive=True):
    out = []
    for r in t:
        s = tet_vol6(v, r)
        if (s < 0) == positive:
            out.append([r[0], r[2], r[1], r[3]])
        else:
            out.append(list(r))
    return out


def delaunay3d(npts, rng):
    from scipy.spatial import Delaunay
    while True:
        pts = np.array([[rng.uniform(0, 2), rng.uniform(0, 2), rng.uniform(0, 2)] for _ in range(npts)])
        d = Delaunay(pts)
        t = [r for r in d.simplices.tolist() if abs(tet_vol6(pts.tolist(), r)) > 1e-3]
        if len(t) >= 1:
            break
    used = sorted(set(i for r in t for i in r))
    remap = {o: n for n, o in enumerate(used)}
    t = [[remap[i] for i in r] for r in t]
    v = [pts[i].tolist() for i in used]
    return v, orient_tets(v, t)


def tet_family(name, rng, small=True):
    if name == "kuhn":
        v, t = kuhn_box(rng.randint(1, 2), rng.randint(1, 2 if small else 3), 1)
        v = jitter(v, rng, 0.08)
        return v, orient_tets(v, t)
    if name == "delaunay":
        return delaunay3d(rng.randint(5, 9 if small else 25), rng)
    if name == "single":
        v = [[rng.uniform(-1, 1) for _ in range(3)] for _ in range(4)]
        while abs(tet_vol6(v, [0, 1, 2, 3])) < 0.05:
            v = [[rng.uniform(-1, 1) for _ in range(3)] for _ in range(4)]
        return v, orient_tets(v, [[0, 1, 2, 3]])
    if name == "subset":
        v, t = kuhn_box(2, 1, 1) if rng.random() < 0.5 else delaunay3d(8, rng)
        t = orient_tets(v, t)
        k = rng.randint(1, len(t))
        keep = sorted(rng.sample(range(len(t)), k))
        return v, [t[i] for i in keep]
    raise KeyError(name)


def compact(v, t):
    used = sorted(set(i for r in t for i in r))
    remap = {o: n for n, o in enumerate(used)}
    return [list(v[i]) for i in used], [[remap[i] for i in r] for r in t]
