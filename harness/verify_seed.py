"""Confirm a seeded defect in its scratch worktree and store it under /verif/seeded/<id>/.
usage: verify_seed.py <worktree> <prop> <A|B> <name>"""
import json, os, shutil, subprocess, sys
wt, prop, which, name = sys.argv[1:5]
env = dict(os.environ, PYTHONPATH=wt, PYTHONHASHSEED="0", MPLBACKEND="Agg")
def run(cmd, timeout=1500):
    p = subprocess.run(cmd, cwd=wt, shell=True, env=env, capture_output=True, text=True, timeout=timeout)
    return p.returncode, (p.stdout + p.stderr)[-1500:]
seed = os.path.join(wt, "_seed")
diff = os.path.join(seed, f"{which}.diff")
demo = os.path.join(seed, f"demo_{which}.py")
res = {}
run("git checkout -- lapy data")
res["demo_pristine"] = run(f"/venv/bin/python {demo}")
rc, out = run(f"git apply {diff}")
res["apply"] = (rc, out)
res["demo_with_change"] = run(f"/venv/bin/python {demo}")
res["tests_with_change"] = run("/venv/bin/python -m pytest -q -p no:cacheprovider --timeout=900 lapy 2>&1 | tail -3")
run("git checkout -- lapy data")
ok = res["demo_pristine"][0] == 0 and res["apply"][0] == 0 and res["demo_with_change"][0] != 0 and " passed" in res["tests_with_change"][1] and "failed" not in res["tests_with_change"][1]
print(name, "CONFIRMED" if ok else "NOT CONFIRMED", {k: v[0] for k, v in res.items()}, res["tests_with_change"][1].strip().splitlines()[-1:])
if ok:
    d = os.path.join("/verif/seeded", name)
    os.makedirs(d, exist_ok=True)
    shutil.copy(diff, os.path.join(d, "patch.diff"))
    shutil.copy(demo, os.path.join(d, "demo.py"))
    for extra in os.listdir(seed):
        if extra.startswith("_") and extra.endswith(".py"):
            shutil.copy(os.path.join(seed, extra), os.path.join(d, extra))
    notes = open(os.path.join(seed, "notes.md")).read() if os.path.exists(os.path.join(seed, "notes.md")) else ""
    json.dump({"property": prop, "variant": which, "origin": "independent sub-agent given only the property text and a scratch worktree",
               "confirmed": {"demo_on_pristine_exit": res["demo_pristine"][0], "demo_with_change_exit": res["demo_with_change"][0],
                             "tests_with_change": res["tests_with_change"][1].strip().splitlines()[-1]},
               "commands": [f"PYTHONPATH=<wt> /venv/bin/python demo.py (pristine, then with patch)", "PYTHONPATH=<wt> /venv/bin/python -m pytest -q -p no:cacheprovider --timeout=900 lapy"],
               "agent_notes": notes[:6000], "detected_by": None}, open(os.path.join(d, "meta.json"), "w"), indent=1)
