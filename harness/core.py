"""Shared machinery of the LaPy verification driver.

- Coq side: incremental full .vo build, Print Assumptions capture for Props/Cxx.v,
  forbidden-token scan, generated correspondence files evaluated with vm_compute.
- Implementation side: worker pool running /repo's lapy with per-case wall-clock limits.
- Verdict logic, known findings, evidence and replay files.
"""
import fcntl
import hashlib
import json
import multiprocessing as mp
import os
import random
import re
import signal
import shutil
import subprocess
import sys
import time

VERIF = os.path.dirname(os.path.dirname(os.path.abspath(__file__)))
COQ = os.path.join(VERIF, "coq")
GEN = os.path.join(COQ, "gen")
REPO = os.environ.get("LAPY_REPO", "/repo")
NPROC = int(os.environ.get("VERIF_NPROC", "16"))

ALLOWED_AXIOMS = {
    # axioms declared by Coq's standard library (real numbers, used by every theorem over R)
    "ClassicalDedekindReals.sig_forall_dec",
    "ClassicalDedekindReals.sig_not_dec",
    "FunctionalExtensionality.functional_extensionality_dep",
    "Classical_Prop.classic",
}
FORBIDDEN = re.compile(
    r"\b(Admitted|admit|Axiom|Axioms|Parameter|Parameters|Conjecture|Conjectures|Hypothesis|Hypotheses|Variable|Variables"
    r"|Admit Obligations|Unset Guard Checking|Unset Positivity Checking|Unset Universe Checking"
    r"|bypass_check|type-in-type|impredicative-set)\b")


def assert_repo_lapy():
    import lapy
    if not os.path.abspath(lapy.__file__).startswith(os.path.abspath(REPO) + os.sep):
        raise SystemExit(f"lapy imported from {lapy.__file__}, expected under {REPO}")


# --------------------------------------------------------------------------- Coq literals
def cfloat(x):
    x = float(x)
    if x != x:
        return "nan"
    if x == float("inf"):
        return "infinity"
    if x == float("-inf"):
        return "neg_infinity"
    h = x.hex()
    return f"({h})" if h.startswith("-") else h


def cflist(xs):
    return "[" + "; ".join(cfloat(x) for x in xs) + "]%float"


def cnat(n):
    n = int(n)
    if n < 0:
        raise ValueError("negative nat")
    return f"{n}%nat"


def cnlist(xs):
    return "[" + "; ".join(str(int(x)) for x in xs) + "]%nat"


def cz(n):
    n = int(n)
    return f"({n})%Z" if n < 0 else f"{n}%Z"


def czlist(xs):
    return "[" + "; ".join(cz(x) for x in xs) + "]"


def cv3(p):
    return "(" + ", ".join(cfloat(c) for c in p) + ")"


def cv3list(ps):
    return "[" + "; ".join(cv3(p) for p in ps) + "]%float"


def ctuples(rows):
    return "[" + "; ".join("(" + ", ".join(str(int(c)) for c in r) + ")" for r in rows) + "]%nat"


def cbool(b):
    return "true" if b else "false"


def cblist(bs):
    return "[" + "; ".join(cbool(b) for b in bs) + "]"


def cstring(s):
    return '"' + s.replace('"', '""') + '"%string'


def copt(x, f):
    return "None" if x is None else f"(Some {f(x)})"


# --------------------------------------------------------------------------- Coq build
def _run(cmd, cwd=None, timeout=1800, env=None):
    t0 = time.time()
    try:
        p = subprocess.run(cmd, cwd=cwd, shell=isinstance(cmd, str), capture_output=True, text=True,
                           timeout=timeout, env=env)
        return p.returncode, p.stdout, p.stderr, time.time() - t0
    except subprocess.TimeoutExpired as e:
        return 124, (e.stdout or b"").decode() if isinstance(e.stdout, bytes) else (e.stdout or ""), "TIMEOUT", time.time() - t0


def coq_sources():
    out = []
    for root, _d, files in os.walk(os.path.join(COQ, "theories")):
        for f in files:
            if f.endswith(".v"):
                out.append(os.path.join(root, f))
    return sorted(out)


def write_coqproject():
    lines = ["-Q theories LaPyV",
             "-arg -w -arg -notation-overridden,-deprecated-hint-without-locality,-deprecated-instance-without-locality,-inexact-float"]
    for f in coq_sources():
        lines.append(os.path.relpath(f, COQ))
    txt = "\n".join(lines) + "\n"
    p = os.path.join(COQ, "_CoqProject")
    old = open(p).read() if os.path.exists(p) else None
    if old != txt:
        open(p, "w").write(txt)
        return True
    return False


def scan_forbidden():
    """Forbidden declarations anywhere in the development (comments stripped)."""
    hits = []
    for f in coq_sources():
        src = open(f).read()
        src = strip_coq_comments(src)
        # Variables/Hypotheses are allowed inside Sections only; we use Context instead
        for m in FORBIDDEN.finditer(src):
            line = src.count("\n", 0, m.start()) + 1
            hits.append(f"{os.path.relpath(f, COQ)}:{line}:{m.group(0)}")
    return hits


def strip_coq_comments(src):
    out, depth, i = [], 0, 0
    while i < len(src):
        if src.startswith("(*", i):
            depth += 1
            i += 2
        elif src.startswith("*)", i) and depth > 0:
            depth -= 1
            i += 2
        else:
            if depth == 0:
                out.append(src[i])
            elif src[i] == "\n":
                out.append("\n")
            i += 1
    return "".join(out)


def coq_build(timeout=3000):
    """Full (incremental) .vo build under a lock.  Returns (ok, log)."""
    os.makedirs(GEN, exist_ok=True)
    lock = open(os.path.join(COQ, ".build.lock"), "w")
    fcntl.flock(lock, fcntl.LOCK_EX)
    try:
        changed = write_coqproject()
        if changed or not os.path.exists(os.path.join(COQ, "Makefile")):
            rc, so, se, _ = _run("coq_makefile -f _CoqProject -o Makefile", cwd=COQ)
            if rc != 0:
                return False, so + se
        rc, so, se, dt = _run(f"timeout {timeout} make -j{NPROC} 2>&1", cwd=COQ, timeout=timeout + 60)
        return rc == 0, so + se
    finally:
        fcntl.flock(lock, fcntl.LOCK_UN)
        lock.close()


def check_props_file(pid):
    """Recompile Props/<pid>.v alone to capture its Print Assumptions output.
    Returns dict(theorems=[(name, [axioms])], ok, log, bad_axioms)."""
    path = os.path.join(COQ, "theories", "Props", f"{pid}.v")
    res = {"theorems": [], "ok": False, "log": "", "bad_axioms": [], "cmd": ""}
    if not os.path.exists(path):
        res["log"] = "no Props file"
        return res
    src = strip_coq_comments(open(path).read())
    declared = re.findall(r"\b(?:Theorem|Lemma|Corollary)\s+([A-Za-z_][A-Za-z0-9_']*)", src)
    printed = re.findall(r"Print Assumptions\s+([A-Za-z_][A-Za-z0-9_']*)", src)
    cmd = f"coqc -Q theories LaPyV -w -notation-overridden,-inexact-float theories/Props/{pid}.v"
    res["cmd"] = f"cd {COQ} && make && {cmd}"
    rc, so, se, _ = _run("timeout 600 " + cmd, cwd=COQ, timeout=700)
    res["log"] = so + se
    if rc != 0:
        return res
    # parse the blocks, in order of the Print Assumptions commands
    blocks = re.split(r"(?m)^(?=Closed under the global context|Axioms:)", so)
    blocks = [b for b in blocks if b.startswith("Closed under") or b.startswith("Axioms:")]
    if len(blocks) != len(printed) or set(printed) != set(declared):
        res["log"] += f"\nassumption blocks {len(blocks)} vs printed {len(printed)} vs declared {len(declared)}"
        return res
    ok = True
    for name, b in zip(printed, blocks):
        axs = []
        if b.startswith("Axioms:"):
            axs = re.findall(r"(?m)^([A-Za-z_][A-Za-z0-9_'.]*)\s*:", b[len("Axioms:"):])
        bad = [a for a in axs if a not in ALLOWED_AXIOMS and not a.startswith(("PrimFloat.", "Uint63.", "PrimInt63.", "FloatAxioms.", "Sint63."))]
        if bad:
            ok = False
            res["bad_axioms"] += [f"{name}:{a}" for a in bad]
        res["theorems"].append((name, axs))
    res["ok"] = ok
    return res


def run_coq_cases(pid, header, check_fun, literals, shard_bytes=350_000, timeout=900):
    """Evaluate [check_fun] on every literal inside Coq.  Returns list of bit-strings
    (one per case, None where evaluation failed) and a log."""
    # one scratch directory per run: concurrent runs of the same property must not wipe each other's shards
    d = os.path.join(GEN, pid, f"run_{os.getpid()}")
    if os.path.isdir(d):
        shutil.rmtree(d)
    os.makedirs(d, exist_ok=True)
    shards, cur, size = [], [], 0
    for idx, lit in enumerate(literals):
        if lit is None:
            continue
        if cur and size + len(lit) > shard_bytes:
            shards.append(cur)
            cur, size = [], 0
        cur.append((idx, lit))
        size += len(lit)
    if cur:
        shards.append(cur)
    files = []
    for k, sh in enumerate(shards):
        fn = os.path.join(d, f"cases_{pid}_{k}.v")
        with open(fn, "w") as f:
            f.write(header + "\n")
            # the literal list is elaborated against the domain of the check function (a shard whose cases all carry e.g. None in
            # some position would otherwise leave an implicit type unresolved)
            f.write(f"Definition results := map {check_fun} [\n" + ";\n".join(l for _, l in sh) + "\n].\n")
            f.write("Eval vm_compute in render results.\n")
        files.append(fn)
    results = [None] * len(literals)
    log = []
    if not files:
        return results, ""
    procs = []
    def launch(fn):
        return subprocess.Popen(
            f"ulimit -s unlimited 2>/dev/null; timeout {timeout} coqc -Q theories LaPyV -w -notation-overridden,-inexact-float {os.path.relpath(fn, COQ)}",
            cwd=COQ, shell=True, stdout=subprocess.PIPE, stderr=subprocess.PIPE, text=True)
    pending = list(enumerate(files))
    running = []
    outs = {}
    while pending or running:
        while pending and len(running) < NPROC:
            k, fn = pending.pop(0)
            running.append((k, launch(fn)))
        k, p = running.pop(0)
        so, se = p.communicate()
        outs[k] = (p.returncode, so, se)
    for k, sh in enumerate(shards):
        rc, so, se = outs[k]
        m = re.search(r'=\s*"([01;]*)"', so.replace("\n", ""))
        if rc == 124:
            # the evaluation ran out of time: a limit of this machinery (the model does not depend on the implementation),
            # reported as cases not compared, never as a disagreement
            log.append(f"TIMEOUT shard {k}: {len(sh)} case(s) not compared")
            continue
        if rc != 0 or not m:
            log.append(f"shard {k}: rc={rc} {se[-2000:]} {so[-500:]}")
            continue
        parts = m.group(1).split(";")[:-1]
        if len(parts) != len(sh):
            log.append(f"shard {k}: {len(parts)} results for {len(sh)} cases")
            continue
        for (idx, _), bits in zip(sh, parts):
            results[idx] = bits
    shutil.rmtree(d, ignore_errors=True)
    return results, "\n".join(log)


# --------------------------------------------------------------------------- implementation workers
class CaseTimeout(BaseException):
    """raised by the per-case alarm; a BaseException so that `except Exception` inside a run_impl cannot swallow it
    (the implementation has known non-terminating loops outside the properties' preconditions)"""


def _alarm(_s, _f):
    raise CaseTimeout()


def call_limited(fn, secs):
    """Run fn() under its own one-shot alarm (for calls that are known not to terminate on some inputs outside the properties'
    preconditions, e.g. boundary_loops on a pinched boundary); returns (value, None) or (None, "Timeout"); the case's own
    timer is restored afterwards."""
    old = signal.getitimer(signal.ITIMER_REAL)
    t0 = time.time()
    signal.setitimer(signal.ITIMER_REAL, secs, 0.5)
    try:
        return fn(), None
    except CaseTimeout:
        return None, "Timeout"
    finally:
        rest = max(old[0] - (time.time() - t0), 0.05) if old[0] > 0 else 0
        signal.setitimer(signal.ITIMER_REAL, rest, old[1])


_WORK_FN = None


def _worker_init(fn_module, fn_name):
    global _WORK_FN
    sys.path.insert(0, VERIF)
    os.environ["PYTHONHASHSEED"] = "0"
    devnull = os.open(os.devnull, os.O_WRONLY)
    os.dup2(devnull, 1)
    import importlib
    import warnings
    warnings.filterwarnings("ignore")
    mod = importlib.import_module(fn_module)
    _WORK_FN = getattr(mod, fn_name)
    assert_repo_lapy()
    try:        # a runaway case must not exhaust the machine: allocations beyond 12 GB fail with MemoryError inside the case
        import resource
        resource.setrlimit(resource.RLIMIT_AS, (12 << 30, 12 << 30))
    except Exception:
        pass


def _worker_call(args):
    case, limit = args
    signal.signal(signal.SIGALRM, _alarm)
    signal.setitimer(signal.ITIMER_REAL, limit, 2.0)      # re-fires every 2 s until the case has been abandoned
    try:
        out = _WORK_FN(case)
    except CaseTimeout:
        out = {"_timeout": True}
    except Exception as e:  # harness-level failure inside run_impl (should be caught there)
        out = {"_harness_error": f"{type(e).__name__}: {e}"}
    finally:
        signal.setitimer(signal.ITIMER_REAL, 0)
    return out


def run_impl_pool(fn_module, fn_name, cases, limit=20.0, procs=None):
    procs = procs or NPROC
    ctx = mp.get_context("fork")
    with ctx.Pool(procs, initializer=_worker_init, initargs=(fn_module, fn_name), maxtasksperchild=200) as pool:
        outs = pool.map(_worker_call, [(c, limit) for c in cases], chunksize=max(1, len(cases) // (procs * 8) or 1))
    return outs


def errkind(e):
    n = type(e).__name__
    return n if n in ("ValueError", "IndexError", "OSError", "AttributeError", "TypeError", "KeyError") else "Other:" + n


# --------------------------------------------------------------------------- findings / verdict
def load_known():
    p = os.path.join(VERIF, "known_findings.json")
    if not os.path.exists(p):
        return []
    return json.load(open(p)).get("findings", [])


def finding_matches(f, pid, v):
    if f.get("kind") != "known" or f.get("property") != pid:
        return False
    if f.get("clause") != v.get("clause"):
        return False
    wc = f.get("witness_class")
    return wc is None or wc == v.get("witness_class")


def jsonable(x):
    import numpy as np
    if isinstance(x, dict):
        return {str(k): jsonable(v) for k, v in x.items()}
    if isinstance(x, (list, tuple)):
        return [jsonable(v) for v in x]
    if isinstance(x, np.ndarray):
        return jsonable(x.tolist())
    if isinstance(x, (np.integer,)):
        return int(x)
    if isinstance(x, (np.floating,)):
        return float(x)
    if isinstance(x, (np.bool_,)):
        return bool(x)
    if isinstance(x, float) and (x != x or x in (float("inf"), float("-inf"))):
        return repr(x)
    return x


def write_replay(pid, payload):
    d = os.path.join(VERIF, "replays")
    os.makedirs(d, exist_ok=True)
    blob = json.dumps(jsonable(payload), sort_keys=True, default=str)
    h = hashlib.sha1(blob.encode()).hexdigest()[:12]
    path = os.path.join(d, f"{pid}_{h}.json")
    open(path, "w").write(json.dumps(jsonable(payload), indent=1, sort_keys=True, default=str))
    return path


def write_evidence(pid, tier, seed, coverage, assumptions, wall, violations):
    d = os.path.join(VERIF, "evidence")
    os.makedirs(d, exist_ok=True)
    ev = {"property_id": pid, "tier": tier, "seed": int(seed), "level": "proof",
          "coverage": jsonable(coverage), "assumptions": assumptions, "wall_s": round(wall, 2),
          "violations": int(violations)}
    open(os.path.join(d, f"{pid}.json"), "w").write(json.dumps(ev, indent=1, default=str))


def case_hash(x):
    return hashlib.sha1(json.dumps(jsonable(x), sort_keys=True, default=str).encode()).hexdigest()
