"""Helpers shared by the FEM properties (C01, C02, C03, C05, C07 ...)."""
import numpy as np

from . import core, gen_mesh as gm


def fem_mesh_cases(rng, tier, n_tria, n_tet, max_v=36, allow_f32=True, far=False):
    """Meshes with all vertices used and non-degenerate elements."""
    cases = []
    fams = ["grid", "gridh", "fan", "annulus", "tetra", "octa", "cube", "ico", "torus", "delaunay", "union", "book", "moebius", "gridh", "delaunay"]
    i = 0
    while len([c for c in cases if c["kind"] == "tria"]) < n_tria:
        fam = fams[i % len(fams)]
        i += 1
        v, t = gm.tria_family(fam, rng, small=True)
        if len(v) > max_v or len(t) < 3:
            continue   # TriaMesh cannot hold fewer than 3 triangles (transposition rule, see C20)
        v, t = gm.compact(v, t)
        if fam in ("grid", "fan", "annulus", "cube", "octa", "tetra", "book"):
            v = gm.jitter(v, rng, 0.15)   # scalene / obtuse triangles
        if rng.random() < 0.3:
            t, _ = gm.flip_some(t, rng, rng.choice([0.3, 1.0]))
        if rng.random() < 0.3:
            t = gm.rotate_rows(t, rng)
        if rng.random() < 0.3:
            t, _ = gm.reorder(t, rng)
        if rng.random() < 0.3:
            v, t, _ = gm.relabel(v, t, rng)
        if rng.random() < 0.3:
            v, _, _, _ = gm.similarity(v, rng, reflect=rng.random() < 0.5)
        if min_tria_quality(v, t) < 0.02:
            continue
        r = rng.random()
        if r < 0.12 and 2 * len(v) <= max_v:
            # multi-scale union: a copy shrunk by 1e-2 .. 2e-3 next to the original
            f = rng.choice([1e-2, 2e-3])
            v2 = (np.array(v) * f + np.array([5.0, 0, 0])).tolist()
            v, t = v + v2, t + [[i + len(v) for i in row] for row in t]
            fam = fam + "_multiscale"
        elif r < 0.3:
            sc = rng.choice([1e-5, 1e-4, 1e-2, 50.0, 1e4])
            v = (np.array(v) * sc).tolist()
            fam = fam + "_scaled"
        vd = rng.choice(["float64", "float64", "float64", "float32"]) if allow_f32 else "float64"
        if allow_f32 and fam.endswith("_scaled") and sc < 1e-3 and rng.random() < 0.6:
            vd = "float32"      # small units in single precision
        if far and rng.random() < 0.15:
            # far from the origin (scanner / world coordinates): element matrices depend on edge vectors only
            P = np.array(v, dtype=float)
            size = np.abs(P - P.mean(0)).max() + 1e-300
            d = np.array([rng.gauss(0, 1) for _ in range(3)])
            d /= np.linalg.norm(d)
            P = P + d * size * (1e6 if vd == "float64" else 100.0)
            v = P.tolist()
            fam = fam + "_far"
        if vd == "float32":
            v = np.array(v, dtype=np.float32).astype(float).tolist()
            if min_tria_quality(v, t) < 0.15:
                vd = "float64"
        cases.append({"kind": "tria", "family": fam, "v": v, "t": t, "lump": rng.random() < 0.5,
                      "vdtype": vd, "tdtype": rng.choice(["int64", "int32"])})
    tf = ["kuhn", "delaunay", "single", "subset"]
    j = 0
    while len([c for c in cases if c["kind"] == "tet"]) < n_tet:
        fam = tf[j % len(tf)]
        j += 1
        v, t = gm.tet_family(fam, rng, small=True)
        v, t = gm.compact(v, t)
        if len(v) > max_v or len(t) > 70:
            continue
        if rng.random() < 0.4:
            t, _ = gm.flip_some(t, rng, rng.choice([0.3, 1.0]))
        if rng.random() < 0.3:
            t, _ = gm.reorder(t, rng)
        if rng.random() < 0.3:
            v, t, _ = gm.relabel(v, t, rng)
        if rng.random() < 0.3:
            v, _, _, _ = gm.similarity(v, rng, reflect=rng.random() < 0.5)
        vd = rng.choice(["float64", "float64", "float64", "float32"]) if allow_f32 else "float64"
        if vd == "float32":
            v = np.array(v, dtype=np.float32).astype(float).tolist()
        if min(abs(gm.tet_vol6(v, r)) for r in t) < (2e-2 if vd == "float32" else 1e-3):
            continue
        r = rng.random()
        ktet = len([c for c in cases if c["kind"] == "tet"])
        if ktet % 6 == 1:
            # always present, whatever the seed: the same element shapes in micrometre ... kilometre units (float64)
            sc = [1e-6, 1e-4, 50.0, 1e3][(ktet // 6) % 4]
            v = (np.array(v) * sc).tolist()
            fam = fam + "_scaled"
            vd = "float64"
        elif r < 0.15 and 2 * len(v) <= max_v and 2 * len(t) <= 70:
            f = rng.choice([1e-2, 5e-3])
            v2 = (np.array(v) * f + np.array([5.0, 0, 0])).tolist()
            v, t = v + v2, t + [[i + len(v) for i in row] for row in t]
            fam = fam + "_multiscale"
            if vd == "float32":
                v = np.array(v, dtype=np.float32).astype(float).tolist()
        elif r < 0.3:
            sc = rng.choice([1e-4, 1e-2, 50.0, 1e3])
            v = (np.array(v) * sc).tolist()
            fam = fam + "_scaled"
            if vd == "float32":
                v = np.array(v, dtype=np.float32).astype(float).tolist()
        cases.append({"kind": "tet", "family": "tet_" + fam, "v": v, "t": t, "lump": rng.random() < 0.5,
                      "vdtype": vd, "tdtype": rng.choice(["int64", "int32"])})
    return cases


def min_tria_quality(v, t):
    p = np.array(v, dtype=float)
    t = np.array(t, dtype=int)
    a, b, c = p[t[:, 0]], p[t[:, 1]], p[t[:, 2]]
    n = np.linalg.norm(np.cross(b - a, c - a), axis=1)
    es = ((b - a) ** 2).sum(1) + ((c - b) ** 2).sum(1) + ((a - c) ** 2).sum(1)
    return float(np.min(2 * np.sqrt(3) * n / es))


def build_mesh(case):
    from lapy import TetMesh, TriaMesh
    v = np.array(case["v"], dtype=case.get("vdtype", "float64"))
    t = np.array(case["t"], dtype=case.get("tdtype", "int64"))
    if case["kind"] == "tria":
        return TriaMesh(v, t)
    return TetMesh(v, t)


def coo_of(M):
    M = M.tocoo()
    M.sum_duplicates()
    order = np.lexsort((M.col, M.row))
    return {"i": M.row[order].tolist(), "j": M.col[order].tolist(), "a": [float(x) for x in M.data[order]],
            "shape": list(M.shape)}


def ccoo(c):
    return "[" + "; ".join(f"({int(i)}%nat, {int(j)}%nat, {core.cfloat(a)})" for i, j, a in zip(c["i"], c["j"], c["a"])) + "]"


def dense(c):
    n = c["shape"][0]
    A = np.zeros((n, c["shape"][1]))
    A[np.array(c["i"], dtype=int), np.array(c["j"], dtype=int)] = np.array(c["a"])
    return A


def elem_grad_and_measure(v, t):
    """Independent per-element PL gradient operator G (ne x 3 x k) and measure."""
    p = np.array(v, dtype=float)
    t = np.array(t, dtype=int)
    k = t.shape[1]
    G = np.zeros((len(t), 3, k))
    meas = np.zeros(len(t))
    for e, r in enumerate(t):
        P = p[r]
        if k == 3:
            n = np.cross(P[1] - P[0], P[2] - P[0])
            M = np.stack([P[1] - P[0], P[2] - P[0], n])
            D = np.array([[-1, 1, 0], [-1, 0, 1], [0, 0, 0]], dtype=float)
            meas[e] = np.linalg.norm(n) / 2
        else:
            M = np.stack([P[1] - P[0], P[2] - P[0], P[3] - P[0]])
            D = np.array([[-1, 1, 0, 0], [-1, 0, 1, 0], [-1, 0, 0, 1]], dtype=float)
            meas[e] = abs(np.linalg.det(M)) / 6
        G[e] = np.linalg.solve(M, D)
    return G, meas


def energy(v, t, f, g):
    G, meas = elem_grad_and_measure(v, t)
    t = np.array(t, dtype=int)
    gf = np.einsum("eck,ek->ec", G, np.array(f)[t])
    gg = np.einsum("eck,ek->ec", G, np.array(g)[t])
    return float(np.sum(meas * np.einsum("ec,ec->e", gf, gg)))
