#!/bin/bash
# usage: harness/confirm_seed.sh <dir with patch.diff demo.py> <worktree>   -- re-confirm a seeded change independently:
# demo exits 0 on the pristine worktree and 1 with the patch; (the 159-test run is done separately)
src=$1; wt=$2
cd $wt || exit 9
git checkout -q -- . ; git clean -qfd -e data 2>/dev/null
PYTHONPATH=$wt /venv/bin/python $src/demo.py > /tmp/confirm_a.log 2>&1; a=$?
git apply $src/patch.diff || { echo "patch does not apply"; exit 8; }
PYTHONPATH=$wt /venv/bin/python $src/demo.py > /tmp/confirm_b.log 2>&1; b=$?
git checkout -q -- .
echo "pristine=$a seeded=$b"
[ $a -eq 0 ] && [ $b -eq 1 ]
