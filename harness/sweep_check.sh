#!/bin/bash
# usage: VERIF_SEED=<n> harness/sweep_check.sh [seed ids...]   -- like sweep_seeds.sh but only prints (does not touch meta.json):
# used to confirm that detection does not depend on the generator seed
cd /verif
ids=${@:-$(ls seeded)}
for id in $ids; do
  prop=${id%%_*}
  if grep -q '"retired"' /verif/seeded/$id/meta.json; then continue; fi
  if [ -n "$(git -C /repo status --porcelain)" ]; then echo "/repo not clean"; exit 3; fi
  if ! git -C /repo apply --check /verif/seeded/$id/patch.diff 2>/dev/null; then echo "$id NOAPPLY"; continue; fi
  git -C /repo apply /verif/seeded/$id/patch.diff
  cp evidence/$prop.json /tmp/evidence_$prop.keep 2>/dev/null
  out=$(./check $prop --tier quick 2>&1 | grep -E "VIOLATION|tier=" | cut -c1-200)
  git -C /repo checkout -- .
  cp /tmp/evidence_$prop.keep evidence/$prop.json 2>/dev/null; rm -f /tmp/evidence_$prop.keep
  if echo "$out" | grep -q "^VIOLATION"; then r=DETECTED; else r=MISSED; fi
  echo "$id $r :: $(echo "$out" | tail -1)"
done
