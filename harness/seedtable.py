"""Rewrite the seeded-change table of DESIGN.md section 10.8 from /verif/seeded/*/{patch.diff,meta.json}."""
import json, os, re

ROOT = "/verif/seeded"


def first_change(diff):
    files, ctx, old, new = [], None, None, None
    for line in diff.splitlines():
        if line.startswith("+++ b/"):
            files.append(line[6:])
        elif line.startswith("@@") and ctx is None:
            ctx = line.split("@@")[2].strip()[:50]
        elif line.startswith("-") and not line.startswith("---") and old is None and line[1:].strip() and not line[1:].strip().startswith("#"):
            old = line[1:].strip()
        elif line.startswith("+") and not line.startswith("+++") and new is None and line[1:].strip() and not line[1:].strip().startswith("#"):
            new = line[1:].strip()
    return sorted(set(files)), ctx or "", old or "(added)", new or "(removed)"


def rows():
    out = []
    for d in sorted(os.listdir(ROOT)):
        meta = json.load(open(os.path.join(ROOT, d, "meta.json")))
        if meta.get("retired"):
            continue
        files, ctx, old, new = first_change(open(os.path.join(ROOT, d, "patch.diff")).read())
        det = meta.get("detected_by")
        out.append("| %s | %s | `%s`: `%s  ->  %s` | %s |" % (d, ", ".join(files), ctx, old.replace("|", "\\|"), new.replace("|", "\\|"),
                                                            "`%s`" % det if det else "**missed**"))
    return out


if __name__ == "__main__":
    p = "/verif/DESIGN.md"
    s = open(p).read()
    r = rows()
    ndet = sum(1 for x in r if "**missed**" not in x)
    head = "| seed | files touched | first changed line (old -> new) | detected by |\n|---|---|---|---|\n"
    i = s.index(head)
    j = s.index("\n\n", i + len(head))
    s = s[:i] + head + "\n".join(r) + s[j:]
    s = re.sub(r"(### 10\.8 Seeded changes: detection table \([^\n]*?)\d+/\d+ detected", r"\g<1>%d/%d detected" % (ndet, len(r)), s)
    open(p, "w").write(s)
    print(ndet, len(r))
