"""Generic per-property check flow (DESIGN.md section 3.1)."""
import importlib
import json
import os
import random
import sys
import time

from . import core


def load_corpus(pid):
    d = os.path.join(core.VERIF, "corpus", pid)
    out = []
    if os.path.isdir(d):
        for f in sorted(os.listdir(d)):
            if f.endswith(".json"):
                c = json.load(open(os.path.join(d, f)))
                c["_corpus"] = f
                out.append(c)
    return out


def first_error(log):
    for line in log.splitlines():
        if line.startswith("File ") or "Error" in line:
            return line.strip()[:300]
    return log.strip()[-300:]


def run_property(pid, tier, seed, replay=None):
    t0 = time.time()
    mod = importlib.import_module(f"harness.props.{pid.lower()}")
    rng = random.Random(seed)
    P = []          # broken proof obligations / correspondences
    notes = []

    # ---------------------------------------------------------------- 1. proofs
    built, blog = core.coq_build()
    forb = core.scan_forbidden()
    props = core.check_props_file(pid) if built else {"theorems": [], "ok": False, "log": blog, "bad_axioms": [], "cmd": ""}
    if not built:
        P.append("coq build failed: " + first_error(blog))
    if forb:
        P.append("forbidden declarations: " + ", ".join(forb[:5]))
    if built and not props["ok"]:
        P.append(f"Props/{pid}.v no longer checks: " + (", ".join(props["bad_axioms"]) or first_error(props["log"])))
    obligations = len(props["theorems"])
    discharged = obligations if (built and props["ok"] and not forb) else 0
    extra_ob = getattr(mod, "extra_obligations", None)
    if extra_ob and built:
        eo = extra_ob()
        obligations += eo["obligations"]
        discharged += eo["discharged"]
        P += eo.get("broken", [])
        notes += eo.get("notes", [])

    # ---------------------------------------------------------------- 2. cases + implementation
    if replay:
        rp = json.load(open(replay))
        cases = [rp["case"]] if "case" in rp else []
    else:
        cases = load_corpus(pid) + mod.generate(rng, tier)
    limit = getattr(mod, "LIMIT", 20.0)
    outs = core.run_impl_pool(mod.__name__, "run_impl", cases, limit=limit) if cases else []
    herr = [o["_harness_error"] for o in outs if isinstance(o, dict) and "_harness_error" in o]
    if herr:
        notes.append(f"harness errors in run_impl: {len(herr)} e.g. {herr[0]}")
        P.append("implementation runner failed on %d cases: %s" % (len(herr), herr[0]))

    # ---------------------------------------------------------------- 3. correspondence
    mismatches = []
    ncorr = 0
    if built and hasattr(mod, "coq_case"):
        lits = []
        for c, o in zip(cases, outs):
            try:
                lits.append(mod.coq_case(c, o) if "_harness_error" not in o else None)
            except Exception as e:  # literal emission must not kill the run
                lits.append(None)
                notes.append(f"coq_case failed: {type(e).__name__}: {e}")
        bits, clog = core.run_coq_cases(pid, mod.COQ_HEADER, mod.COQ_CHECK, lits,
                                        shard_bytes=getattr(mod, "SHARD_BYTES", 300_000))
        tlog = [l for l in clog.split("\n") if l.startswith("TIMEOUT")]
        clog = "\n".join(l for l in clog.split("\n") if l and not l.startswith("TIMEOUT"))
        if tlog:
            notes.append("correspondence: " + "; ".join(tlog))
        if clog:
            P.append("correspondence evaluation failed: " + clog[:400])
        labels = mod.COQ_LABELS
        for i, b in enumerate(bits):
            if lits[i] is None:
                continue
            if b is None:
                continue
            ncorr += 1
            if "0" in b or len(b) != len(labels):
                bad = [labels[k] if k < len(labels) else f"#{k}" for k, ch in enumerate(b) if ch == "0"]
                if len(b) != len(labels):
                    bad.append(f"arity {len(b)}!={len(labels)}")
                mismatches.append((i, bad))
        if mismatches:
            i, bad = mismatches[0]
            P.append(f"correspondence {pid}: model and implementation differ on {len(mismatches)} case(s); first: case {i} sub-checks {bad}")
    elif not built:
        notes.append("correspondence not evaluated (Coq build failed)")

    # ---------------------------------------------------------------- 4. oracles (search for failing inputs)
    def run_oracles(cs, os_):
        v = []
        for i, (c, o) in enumerate(zip(cs, os_)):
            if "_harness_error" in o:
                continue
            for viol in mod.oracle(c, o):
                viol["case_index"] = i
                viol["case"] = c
                viol["observed"] = o
                v.append(viol)
        return v
    viols = run_oracles(cases, outs)
    searched_harder = False
    if P and not viols and tier == "quick" and not replay:
        # a proof or correspondence broke: search harder before giving up
        searched_harder = True
        rng2 = random.Random(seed + 1)
        more = mod.generate(rng2, "thorough")
        # neighbours of disagreeing cases
        if mismatches and hasattr(mod, "neighbours"):
            for i, _ in mismatches[:5]:
                more = mod.neighbours(cases[i], rng2) + more
        more = more[: getattr(mod, "SEARCH_CAP", 4000)]
        mouts = core.run_impl_pool(mod.__name__, "run_impl", more, limit=limit)
        viols = run_oracles(more, mouts)

    # ---------------------------------------------------------------- 5. verdict
    known = core.load_known()
    new_viols, known_hits = [], {}
    for v in viols:
        hit = next((f for f in known if core.finding_matches(f, pid, v)), None)
        if hit:
            known_hits.setdefault(hit["id"], (hit, 0))
            known_hits[hit["id"]] = (hit, known_hits[hit["id"]][1] + 1)
        else:
            new_viols.append(v)
    lines = []
    for fid, (f, n) in sorted(known_hits.items()):
        lines.append(f"KNOWN-FINDING: property={pid} {fid} {f['what']} ({n} witnesses this run)")
    # every listed finding of this property is announced, also when this run's sample did not hit it (some witnesses depend on
    # the generator seed or on ARPACK's random start vector)
    if replay is None:
        for f in known:
            if f.get("kind") == "known" and f.get("property") == pid and f["id"] not in known_hits:
                lines.append(f"KNOWN-FINDING: property={pid} {f['id']} {f['what']} (0 witnesses this run)")
    exit_code = 0
    replay_paths = []
    if new_viols:
        # one replay per distinct clause, smallest case first
        byclause = {}
        for v in new_viols:
            k = (v["clause"], v.get("witness_class"))
            size = len(json.dumps(core.jsonable(v["case"]), default=str))
            if k not in byclause or size < byclause[k][0]:
                byclause[k] = (size, v)
        for k, (_, v) in sorted(byclause.items(), key=lambda kv: str(kv[0])):
            shr = getattr(mod, "shrink", None)
            if shr:
                try:
                    v = shr(v) or v
                except Exception as e:
                    notes.append(f"shrink failed: {e}")
            path = core.write_replay(pid, {"property": pid, "clause": v["clause"], "witness_class": v.get("witness_class"),
                                           "detail": v.get("detail"), "case": v["case"], "observed": v.get("observed"),
                                           "seed": seed, "tier": tier, "broken_obligations": P})
            replay_paths.append(path)
            lines.append(f"VIOLATION property={pid} replay={path}")
        exit_code = 1
    elif P:
        first = None
        if mismatches:
            i, bad = mismatches[0]
            first = {"case": cases[i], "observed": outs[i], "subchecks": bad}
        path = core.write_replay(pid, {"property": pid, "no_failing_input_found": True, "broken_obligations": P,
                                       "first_disagreeing_case": first, "seed": seed, "tier": tier,
                                       "searched_harder": searched_harder})
        replay_paths.append(path)
        lines.append(f"VIOLATION property={pid} replay={path} no-failing-input-found")
        exit_code = 1

    # ---------------------------------------------------------------- 6. evidence
    keys = set()
    nontriv = 0
    dist = {}
    for c, o in zip(cases, outs):
        k = mod.case_key(c) if hasattr(mod, "case_key") else core.case_hash(c)
        cls = c.get("family", "?")
        dist[cls] = dist.get(cls, 0) + 1
        if k in keys:
            continue
        keys.add(k)
        if mod.nontrivial(c, o):
            nontriv += 1
    samples = []
    for c, o in list(zip(cases, outs))[:3]:
        samples.append({"case": c, "observed": o})
    cov = {
        "obligations": obligations, "discharged": discharged,
        "checker_cmd": props.get("cmd") or f"cd {core.COQ} && make",
        "trusted_base": getattr(mod, "TRUSTED", []) + [
            "Coq 8.16.1 kernel + vm_compute (no native_compute)",
            "hand-written model under coq/theories/Model tied to /repo by the correspondence run reported here",
            "harness (generators, literal emission via float.hex(), in-Coq comparators and tolerances)"],
        "theorems": [{"name": n, "axioms": a} for n, a in props["theorems"]],
        "evaluations": len(cases), "distinct_nontrivial": nontriv,
        "rule": getattr(mod, "RULE", ""),
        "samples": samples,
        "traces_validated_against_impl": ncorr,
        "correspondence_mismatches": len(mismatches),
        "oracle_violations_new": len(new_viols), "oracle_violations_known": sum(n for _, n in known_hits.values()),
        "input_distribution": dist,
        "timeouts": sum(1 for o in outs if isinstance(o, dict) and o.get("_timeout")),
        "broken_obligations": P, "notes": notes, "searched_harder": searched_harder,
        "exhaustive": bool(getattr(mod, "EXHAUSTIVE", {}).get(tier, False)),
    }
    extra_cov = getattr(mod, "extra_coverage", None)
    if extra_cov:
        cov.update(extra_cov(cases, outs))
    core.write_evidence(pid, tier, seed, cov, getattr(mod, "ASSUMPTIONS", []), time.time() - t0, len(new_viols) + (1 if (P and not new_viols) else 0))
    for l in lines:
        print(l)
    print(f"{pid} tier={tier} seed={seed} cases={len(cases)} corr={ncorr} mismatches={len(mismatches)} "
          f"theorems={discharged}/{obligations} new_violations={len(new_viols)} known={len(known_hits)} "
          f"wall={time.time() - t0:.1f}s exit={exit_code}")
    return exit_code
