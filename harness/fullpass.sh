#!/bin/bash
# usage: harness/fullpass.sh <tier> <seed...>   -- run every registered check on the current tree, print one line per run
cd /verif
tier=$1; shift
for seed in "$@"; do
  for p in C01 C02 C03 C04 C05 C06 C07 C08 C09 C10 C11 C12 C13 C14 C15 C16 C17 C18 C19 C20; do
    VERIF_SEED=$seed ./check $p --tier $tier 2>&1 | grep -E "^VIOLATION|tier=" | cut -c1-180
  done
done
