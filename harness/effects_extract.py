"""Fail-closed translator: Python source of lapy -> table of write effects per public function (Coq text).

For every public function / method of the listed modules it records, in source order,
  AssignAttr obj attr     obj.attr = ...      (obj is `self`, a parameter, or an alias of one)
  StoreInto root          X[...] = ..., X op= ..., np.add.at(X, ..), X.sort() ... where X may alias `root`
                          (root is "self.<attr>" or "param:<name>[.attr]")
  CallMutator root meth   X.meth_(...) on self / a parameter / an alias of one
  CallInit                self.__init__(...)
  CopyFrom attr param     self.attr = np.array(param)        (constructor copies its input)
  Unknown what            construct outside the understood subset  (the table then fails its theorem)
Aliasing is flow-insensitive within one forward pass repeated twice (loops): a name is an alias of a root if it
was assigned from the root, from a view of it (subscript, .T, .reshape, .ravel, .squeeze, .view, np.asarray,
np.atleast_*d, np.squeeze, np.ravel, np.reshape), and not re-assigned from anything else afterwards.
"""
import ast
import os

MODULES = ["tria_mesh", "tet_mesh", "solver", "diffgeo", "heat", "shapedna", "conformal", "io", "_tria_io", "_tet_io"]
VIEW_FUNCS = {"asarray", "asanyarray", "atleast_1d", "atleast_2d", "atleast_3d", "squeeze", "ravel", "reshape", "transpose",
              "real", "imag"}
VIEW_METHODS = {"reshape", "ravel", "squeeze", "view", "transpose", "swapaxes"}
VIEW_ATTRS = {"T", "real", "imag", "flat"}
INPLACE_METHODS = {"sort", "fill", "resize", "itemset", "put", "setfield", "partition", "byteswap", "setflags"}
INPLACE_FUNCS = {"put", "copyto", "fill_diagonal", "place", "putmask", "put_along_axis"}
OK_NODES = (ast.Module, ast.FunctionDef, ast.ClassDef, ast.Return, ast.Assign, ast.AugAssign, ast.AnnAssign, ast.For, ast.While, ast.If,
            ast.With, ast.Raise, ast.Try, ast.Assert, ast.Import, ast.ImportFrom, ast.Expr, ast.Pass, ast.Break, ast.Continue,
            ast.BoolOp, ast.BinOp, ast.UnaryOp, ast.Lambda, ast.IfExp, ast.Dict, ast.Set, ast.ListComp, ast.SetComp, ast.DictComp,
            ast.GeneratorExp, ast.Compare, ast.Call, ast.FormattedValue, ast.JoinedStr, ast.Constant, ast.Attribute, ast.Subscript,
            ast.Starred, ast.Name, ast.List, ast.Tuple, ast.Slice, ast.Load, ast.Store, ast.Del, ast.And, ast.Or, ast.Add, ast.Sub,
            ast.Mult, ast.MatMult, ast.Div, ast.Mod, ast.Pow, ast.LShift, ast.RShift, ast.BitOr, ast.BitXor, ast.BitAnd, ast.FloorDiv,
            ast.Invert, ast.Not, ast.UAdd, ast.USub, ast.Eq, ast.NotEq, ast.Lt, ast.LtE, ast.Gt, ast.GtE, ast.Is, ast.IsNot, ast.In,
            ast.NotIn, ast.comprehension, ast.ExceptHandler, ast.arguments, ast.arg, ast.keyword, ast.alias, ast.withitem, ast.Delete)
FORBIDDEN_CALLS = {"setattr", "exec", "eval", "globals", "locals", "vars", "delattr"}


class FnEffects:
    def __init__(self, fn, is_method):
        self.fn = fn
        self.params = [a.arg for a in fn.args.posonlyargs + fn.args.args + fn.args.kwonlyargs]
        if fn.args.vararg:
            self.params.append(fn.args.vararg.arg)
        if fn.args.kwarg:
            self.params.append(fn.args.kwarg.arg)
        self.selfname = self.params[0] if is_method and self.params else None
        self.alias = {}
        for p in self.params:
            self.alias[p] = "self" if p == self.selfname else f"param:{p}"
        self.effects = []

    # root of an expression if it may alias caller-visible storage, else None
    def root(self, e):
        if isinstance(e, ast.Name):
            return self.alias.get(e.id)
        if isinstance(e, ast.Attribute):
            r = self.root(e.value)
            if r is None:
                return None
            if e.attr in VIEW_ATTRS:
                return r
            if r == "self":
                return f"self.{e.attr}"
            if r.startswith("param:") and "." not in r:
                return f"{r}.{e.attr}"
            return r
        if isinstance(e, ast.Subscript):
            return self.root(e.value)
        if isinstance(e, ast.Call):
            f = e.func
            if isinstance(f, ast.Attribute):
                if isinstance(f.value, ast.Name) and f.value.id in ("np", "numpy") and f.attr in VIEW_FUNCS and e.args:
                    return self.root(e.args[0])
                if f.attr in VIEW_METHODS:
                    return self.root(f.value)
            return None
        if isinstance(e, ast.IfExp):
            return self.root(e.body) or self.root(e.orelse)
        return None

    def emit(self, eff, node):
        item = (node.lineno, node.col_offset, eff)
        if item not in self.effects:
            self.effects.append(item)

    def store_target(self, tgt, value, node):
        if isinstance(tgt, (ast.Tuple, ast.List)):
            vals = value.elts if isinstance(value, (ast.Tuple, ast.List)) and len(value.elts) == len(tgt.elts) else [None] * len(tgt.elts)
            for t, v in zip(tgt.elts, vals):
                self.store_target(t, v, node)
            return
        if isinstance(tgt, ast.Starred):
            self.store_target(tgt.value, None, node)
            return
        if isinstance(tgt, ast.Name):
            r = self.root(value) if value is not None else None
            if r is not None and r != "self":
                self.alias[tgt.id] = r
            elif r == "self":
                self.alias[tgt.id] = "self"
            else:
                self.alias.pop(tgt.id, None)
            return
        if isinstance(tgt, ast.Attribute):
            r = self.root(tgt.value)
            if r is not None:
                obj = r
                if (self.fn.name == "__init__" and obj == "self" and isinstance(value, ast.Call)
                        and isinstance(value.func, ast.Attribute) and value.func.attr == "array" and value.args
                        and isinstance(value.args[0], ast.Name) and value.args[0].id in self.params):
                    self.emit(("CopyFrom", tgt.attr, value.args[0].id), node)
                else:
                    self.emit(("AssignAttr", obj, tgt.attr), node)
            return
        if isinstance(tgt, ast.Subscript):
            r = self.root(tgt.value)
            if r is not None:
                self.emit(("StoreInto", r), node)
            return
        self.emit(("Unknown", "target " + type(tgt).__name__), node)

    def visit_calls(self, node):
        for c in ast.walk(node):
            if not isinstance(c, ast.Call):
                continue
            f = c.func
            if isinstance(f, ast.Name) and f.id in FORBIDDEN_CALLS:
                self.emit(("Unknown", "call " + f.id), c)
            if isinstance(f, ast.Attribute):
                # self.__init__(...)
                if f.attr == "__init__" and self.root(f.value) == "self":
                    self.emit(("CallInit",), c)
                    continue
                r = self.root(f.value)
                if r is not None and f.attr.endswith("_") and not f.attr.startswith("__"):
                    self.emit(("CallMutator", r, f.attr), c)
                if r is not None and f.attr in INPLACE_METHODS:
                    self.emit(("StoreInto", r), c)
                # np.add.at(X, ...), np.put(X, ...), np.copyto(X, ...)
                if f.attr == "at" and c.args:
                    r0 = self.root(c.args[0])
                    if r0 is not None:
                        self.emit(("StoreInto", r0), c)
                if isinstance(f.value, ast.Name) and f.value.id in ("np", "numpy") and f.attr in INPLACE_FUNCS and c.args:
                    r0 = self.root(c.args[0])
                    if r0 is not None:
                        self.emit(("StoreInto", r0), c)
                for kw in c.keywords:
                    if kw.arg == "out":
                        r0 = self.root(kw.value)
                        if r0 is not None:
                            self.emit(("StoreInto", r0), c)

    def walk_body(self, body):
        for st in body:
            for n in ast.walk(st):
                if not isinstance(n, OK_NODES):
                    self.emit(("Unknown", type(n).__name__), st)
                if isinstance(n, (ast.Global, ast.Nonlocal)):
                    self.emit(("Unknown", type(n).__name__), st)
            if isinstance(st, (ast.FunctionDef, ast.ClassDef)):
                # nested helper: analysed with the enclosing aliases (reads only); writes through closures are rare
                self.walk_body(st.body)
                continue
            if isinstance(st, ast.Assign):
                self.visit_calls(st.value)
                for tgt in st.targets:
                    self.store_target(tgt, st.value, st)
            elif isinstance(st, ast.AnnAssign):
                if st.value is not None:
                    self.visit_calls(st.value)
                    self.store_target(st.target, st.value, st)
            elif isinstance(st, ast.AugAssign):
                self.visit_calls(st.value)
                t = st.target
                if isinstance(t, ast.Name):
                    r = self.root(t)
                    if r is not None:
                        self.emit(("StoreInto", r), st)
                elif isinstance(t, ast.Subscript):
                    r = self.root(t.value)
                    if r is not None:
                        self.emit(("StoreInto", r), st)
                elif isinstance(t, ast.Attribute):
                    r = self.root(t.value)
                    if r is not None:
                        self.emit(("AssignAttr", r, t.attr), st)
            elif isinstance(st, (ast.For, ast.While)):
                if isinstance(st, ast.For):
                    self.visit_calls(st.iter)
                    self.store_target(st.target, None, st)
                else:
                    self.visit_calls(st.test)
                self.walk_body(st.body)
                self.walk_body(st.body)      # second pass: aliases created late in the loop body
                self.walk_body(st.orelse)
            elif isinstance(st, ast.If):
                self.visit_calls(st.test)
                saved = dict(self.alias)
                self.walk_body(st.body)
                a1 = self.alias
                self.alias = dict(saved)
                self.walk_body(st.orelse)
                # may-alias: union of both branches
                for k, v in a1.items():
                    self.alias.setdefault(k, v)
            elif isinstance(st, ast.With):
                for it in st.items:
                    self.visit_calls(it.context_expr)
                    if it.optional_vars is not None:
                        self.store_target(it.optional_vars, None, st)
                self.walk_body(st.body)
            elif isinstance(st, ast.Try):
                self.walk_body(st.body)
                for h in st.handlers:
                    self.walk_body(h.body)
                self.walk_body(st.orelse)
                self.walk_body(st.finalbody)
            elif isinstance(st, ast.Delete):
                for t in st.targets:
                    if isinstance(t, (ast.Attribute, ast.Subscript)) and self.root(t.value) is not None:
                        self.emit(("Unknown", "del on caller-visible object"), st)
            else:
                self.visit_calls(st)


def extract(repo):
    table = []
    problems = []
    for mod in MODULES:
        path = os.path.join(repo, "lapy", mod + ".py")
        try:
            tree = ast.parse(open(path).read())
        except Exception as e:
            problems.append(f"{mod}: cannot parse: {e}")
            table.append((mod, "", "<module>", [], [(0, 0, ("Unknown", "parse error"))]))
            continue
        def handle(fn, cls):
            if fn.name.startswith("_") and fn.name != "__init__":
                return
            fe = FnEffects(fn, cls is not None and not any(isinstance(d, ast.Name) and d.id == "staticmethod" for d in fn.decorator_list))
            fe.walk_body(fn.body)
            table.append((mod, cls or "", fn.name, fe.params, sorted(fe.effects)))
        for node in tree.body:
            if isinstance(node, ast.FunctionDef):
                handle(node, None)
            elif isinstance(node, ast.ClassDef):
                for sub in node.body:
                    if isinstance(sub, ast.FunctionDef):
                        handle(sub, node.name)
    return table, problems


def coq_string(s):
    return '"' + s.replace('"', '""') + '"'


def to_coq(table):
    lines = []
    for mod, cls, name, params, effs in table:
        es = []
        for _l, _c, e in effs:
            if e[0] == "AssignAttr":
                es.append(f"AssignAttr {coq_string(e[1])} {coq_string(e[2])}")
            elif e[0] == "StoreInto":
                es.append(f"StoreInto {coq_string(e[1])}")
            elif e[0] == "CallMutator":
                es.append(f"CallMutator {coq_string(e[1])} {coq_string(e[2])}")
            elif e[0] == "CallInit":
                es.append("CallInit")
            elif e[0] == "CopyFrom":
                es.append(f"CopyFrom {coq_string(e[1])} {coq_string(e[2])}")
            else:
                es.append(f"Unknown {coq_string(e[1])}")
        lines.append(f"  mkF {coq_string(mod)} {coq_string(cls)} {coq_string(name)} [" + "; ".join(es) + "]")
    return "[\n" + ";\n".join(lines) + "\n]"


if __name__ == "__main__":
    import sys
    t, p = extract(sys.argv[1] if len(sys.argv) > 1 else "/repo")
    for mod, cls, name, params, effs in t:
        if effs:
            print(mod, cls, name, [(l, e) for l, _c, e in effs])
    print(p)
