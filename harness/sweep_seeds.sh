#!/bin/bash
# usage: harness/sweep_seeds.sh [seed ids...]   -- for every stored seeded change: apply, run the property's quick check, revert;
# writes detected_by into seeded/<id>/meta.json and prints a table
cd /verif
ids=${@:-$(ls seeded)}
for id in $ids; do
  prop=${id%%_*}
  if grep -q '"retired"' /verif/seeded/$id/meta.json; then continue; fi
  if [ -n "$(git -C /repo status --porcelain)" ]; then echo "/repo not clean"; exit 3; fi
  if ! git -C /repo apply --check /verif/seeded/$id/patch.diff 2>/dev/null; then echo "$id NOAPPLY"; continue; fi
  git -C /repo apply /verif/seeded/$id/patch.diff
  cp evidence/$prop.json /tmp/evidence_$prop.keep 2>/dev/null     # evidence files must describe runs on the unchanged tree only
  out=$(./check $prop --tier quick 2>&1 | grep -E "VIOLATION|tier=" | cut -c1-200)
  git -C /repo checkout -- .
  cp /tmp/evidence_$prop.keep evidence/$prop.json 2>/dev/null; rm -f /tmp/evidence_$prop.keep
  if echo "$out" | grep -q "^VIOLATION"; then det="./check $prop --tier quick"; else det=""; fi
  /venv/bin/python - "$id" "$det" <<'PY'
import json, sys
p = f"/verif/seeded/{sys.argv[1]}/meta.json"
d = json.load(open(p))
d["detected_by"] = sys.argv[2] or None
json.dump(d, open(p, "w"), indent=1)
PY
  echo "$id $( [ -n "$det" ] && echo DETECTED || echo MISSED ) :: $(echo "$out" | tail -1)"
done
