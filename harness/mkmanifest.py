"""Regenerate /verif/MANIFEST.json from the table below (keeps it schema-valid)."""
import json
import os

VERIF = os.path.dirname(os.path.dirname(os.path.abspath(__file__)))

BASE_NOTE = ("Trusted: Coq 8.16.1 kernel and vm_compute (no native_compute); stdlib real-number axioms "
             "(sig_forall_dec, sig_not_dec, functional_extensionality_dep) under theorems over R, as printed by Print Assumptions "
             "into the evidence file; the hand-written Gallina model (tied to /repo only by the correspondence run: model at "
             "binary64 vs implementation on the same generated inputs, compared inside Coq); numpy/scipy semantics as modelled; "
             "Python harness, generators, oracles. Theorems are about the model at exact reals; rounding is not bounded by a theorem.")

CHECKS = {
    "C12": dict(
        text=("Theorems (all tet meshes, all flip patterns, unbounded size) about the Gallina model of tet_mesh.py: is_oriented iff all signed "
              "volumes positive; orient_ swaps exactly the negative tets, keeps sets/order, returns their number, result oriented when "
              "non-degenerate; boundary_tria = exactly the faces whose vertex set occurs once, each once; ownership of transferred function; "
              "per-tet divergence identity; for every mesh in which no face belongs to more than two tetrahedra every edge lies in an even "
              "number of boundary faces, so the extracted surface is closed (is_closed = true); a second orient_ changes nothing and returns 0; is_oriented and orient_ are unchanged by proper rigid motions and positive scalings, reflections negate every signed volume (TetRigidP). Model tied to the code by in-Coq comparison "
              "on generated meshes; orientation and enclosed-volume clauses of the boundary (they need a geometric embedding without "
              "overlaps) are decided by oracle search only (partial)."),
        design="6/C12", technique="Coq proof over list model (sorting/grouping lemmas, ring) + vm_compute correspondence"),
}

CHECKS["C01"] = dict(
    text=("Theorems for ALL meshes / all pairs of vertex functions about the Gallina model of Solver._fem_tria/_fem_tetra/_fem_tria_aniso: "
          "entrywise symmetry and constants->0 (any geometry); on meshes whose triangles / tetrahedra have non-zero measure (any length unit; after fixes 72e7cef / 841e03d the code's guards act on exact zeros only) f.A.g = sum of "
          "measure * grad f . grad g with the spec gradient characterised independently, hence PSD; all denominators non-zero; aniso: "
          "symmetric, constant-annihilating, PSD for weights >= 0, weights from aniso >= 0 lie in (0,1], element blocks equal the isotropic "
          "ones for weights (1,1) and never exceed them for weights in [0,1] given an orthonormal in-plane frame; on non-degenerate "
          "meshes the form f.A.g is unchanged by any reordering of the triangles and by any of the six orders of the three indices of "
          "each triangle (cyclic rotation, flip), and likewise for tetrahedra: any reordering of the elements and any of the 24 orders of the "
          "four indices of each tetrahedron (FemTetInvarP). Relabelling of the vertices and float32 agreement "
          "are covered by correspondence + oracle only (partial)."),
    design="6/C01", technique="Coq proof (ring/field identities + list-induction assembly lemmas) + vm_compute correspondence at binary64")
CHECKS["C02"] = dict(
    text=("Theorems for all meshes: mass matrices (tria/tet, full/lumped) symmetric, stored entries > 0 on non-degenerate meshes, entries "
          "sum to total measure, x.B.y equals the closed form of the exact integral which equals the edge-midpoint quadrature (exact for "
          "quadratics) for triangles, lumped = diagonal of row sums; the stand-alone Solver.fem_tria_mass returns, entry by entry, "
          "the matrix Solver(...) assembles on every mesh without a degenerate triangle (both routines are modelled separately); on "
          "non-degenerate meshes the forms x.B.y (full and lumped, triangles and tetrahedra) are unchanged by any reordering of the elements and "
          "by any order of the indices inside an element (MassInvarP)."),
    design="6/C02", technique="Coq proof (ring/field + assembly lemmas) + vm_compute correspondence at binary64")

CHECKS["C09"] = dict(
    text=("Theorems for every index array with distinct vertices per triangle: adjacency values = brute-force triangle / half-edge counts; "
          "is_closed, is_manifold, is_oriented, has_free_vertices each iff their combinatorial definition; vertex_degrees = number of "
          "distinct neighbours; euler = V - E + F with E the number of undirected edges; edges() on oriented meshes lists every inner "
          "edge (i<j, in exactly two triangles) once with triangles carrying its two half-edges. boundary_loops (fuelled model of "
          "the CSC walk): the table it walks is exactly the set of boundary half-edges; on every manifold, open, oriented mesh whose "
          "boundary half-edges form a permutation of the boundary vertices the walk terminates within its fuel and returns simple "
          "cycles that together use every boundary half-edge exactly once; closed -> [], non-manifold / unoriented -> ValueError. "
          "All queries are tied to the code by exact correspondence over all 4-vertex and (thorough) all 58 848 five-vertex "
          "complexes plus structured families, with brute-force oracles. Also proved (LoopsDegP): in an oriented mesh every vertex has "
          "as many incoming as outgoing boundary half-edges, so the permutation hypothesis follows from 'no vertex has two outgoing "
          "boundary half-edges' alone - the loop theorem holds under exactly the hypothesis the property states."),
    design="6/C09", technique="Coq proof (counting lemmas over key lists, cycle-walk invariant) + exhaustive small-complex correspondence via vm_compute")

CHECKS["C10"] = dict(
    text=("Theorems about the Gallina model of orient_ (half-edge table, unique-with-counts test, lexsort pairing, signed neighbour "
          "matrix, fuelled flood incl. re-seeding per component, flips, volume test). Central theorem: for EVERY edge-manifold, "
          "orientable mesh in which each triangle shares an edge with another one (any number of components, any flip pattern, any "
          "numbering, two-triangle pillows included; hypotheses stated with brute-force counts) orient_ terminates within its fuel, "
          "raises nothing and returns consistently oriented triangles; a second call returns 0 and changes nothing. Proved through "
          "(i) a characterisation of the entries produced by the lexsort/reshape pairing, (ii) an invariant of the sign flood for every "
          "symmetric sign-consistent neighbour table. Also for every input: triangle order and vertex sets are kept; the return value "
          "is the number of triangles whose winding changed; a global flip negates the enclosed volume and the returned closed mesh "
          "has volume >= 0; an edge in >= 3 triangles gives ValueError; an oriented mesh is a fixed point. Proving the central theorem "
          "exposed finding F24 (pillow components, repaired by fix c4eb84f). The model is tied to the code by correspondence on every "
          "generated flip pattern (both calls) plus brute-force oracles."),
    design="6/C10", technique="Coq proof (pairing characterisation, flood invariant, counting lemmas) + vm_compute correspondence over flip patterns")

CHECKS["C11"] = dict(
    text=("Theorems about the Gallina model of refine_ for every mesh (any topology): old vertices are an unchanged prefix; the edge "
          "list is duplicate-free and contains every edge, the k-th new vertex is the midpoint of the k-th edge, vertex count grows by "
          "the edge count; triangle count quadruples, children follow parent order and use the midpoint vertices of their parent's edges; "
          "each child has exactly a quarter of the parent's cross product (same plane and winding; areas sum), children's cones sum to "
          "the parent's (volume) and centres sum (centroid); refine(a+b) = refine b . refine a. Topology: exact half-edge counts of the "
          "children in terms of the parents, hence for every mesh without two triangles on the same vertex set the refined mesh is "
          "oriented / edge-manifold / closed exactly when the original is (closedness without that hypothesis); the hypothesis cannot "
          "be dropped (theorem with the witness of finding F25: tetrahedron + pillow). Euler characteristic, loop count and "
          "'adjacency rebuilt' are decided by correspondence + oracles (partial)."),
    design="6/C11", technique="Coq proof (list lemmas, field identities) + vm_compute correspondence incl. exhaustive 4-vertex complexes")

CHECKS["C13"] = dict(
    text=("Theorems over R about the Gallina model of the measures: Heron-as-coded = |cross|/2 for every triangle; area = sum of "
          "triangle areas = sum of vertex_areas (scatter-add total lemma) and it is the same per-triangle number used by centroid() and "
          "the mass matrix; triangle normals unit / orthogonal / following the winding for every triangle of non-zero area (any length "
          "unit); vertex normals are unit or negligible relative to the longest sum; qualities in (0,1] "
          "(Weitzenboeck) and = 1 for equilateral; volume sign flips under global re-orientation and volume() is translation invariant "
          "for every mesh (VolumeTransP: the shift terms cancel between opposite half-edges of a closed oriented mesh); normal_offset_(d) is defined exactly on oriented meshes, "
          "keeps the vertex count and moves vertex i by d * n_i, a displacement of length |d| wherever n_i is unit (NormalOffsetP). Direction of vertex normals, centroid, "
          "avg_edge_length, normalize_ (theorem under C19), the rigid/scale laws other than those of the total area (AreaInvarP: invariant under every Q^T Q = I and translation, times s^2 under scaling) and of volume() (VolumeScaleP: times s^3 under scaling, times det Q under p -> Q p + b, so kept by rotations and negated by reflections) and of tria_qualities (QualityInvarP: invariant under rigid motion and scaling by s <> 0) and centroid() (CentroidAffP: equivariant under translation and positive scaling) and avg_edge_length of triangle and tetra meshes (EdgeLenInvarP: rigid invariant, times s under scaling) and the tria_areas / vertex_areas lists (VertexAreasInvarP) and tria_normals under translation and positive scaling (NormalsTransP, NormalsScaleP) and the volume branch structure are modelled and "
          "tied by correspondence + metamorphic oracles on the implementation (partial)."),
    design="6/C13", technique="Coq proof over R (sqrt/field/nra) + vm_compute correspondence at binary64")

CHECKS["C15"] = dict(
    text=("Theorems over R about the Gallina model: map_tfunc_to_vfunc conserves totals (weighted: the area integral, with the coded "
          "Heron areas proved equal to |cross|/2, and the constant 1 is mapped to exactly the list vertex_areas() returns: TfuncAreasP); map_vfunc_to_tfunc is the corner mean, linear (TfuncLinearP) and maps constants to constants; one smoothing "
          "step is exactly the mean over the distinct edge neighbours (vertex areas cancel), hence weights >= 0 summing to 1 on "
          "neighbours, linear, fixes constants, and k steps stay in [lo,hi] (induction). Column-wise action, ValueError on wrong length, "
          "smooth_ and dtype handling are tied by correspondence + oracles. The clause 'map_tfunc_to_vfunc maps constants to constants' "
          "is refuted by the code and the model alike (known finding F13: conflicts with conservation; theorem "
          "C15_constants_to_constants_refuted gives the witness on the 3-fan for arbitrary coordinates)."),
    design="6/C15", technique="Coq proof over R (scatter/sum lemmas, field, induction on iterations) + vm_compute correspondence")

CHECKS["C20"] = dict(
    text=("(1) Theorem by induction over operation lists: in the state-machine model of TriaMesh/TetMesh objects every reachable state "
          "(any history of orient_/refine_/rm_free_vertices_/normalize_/smooth_/normal_offset_, failing calls included) has its derived "
          "adjacency equal to the one of a fresh object, hence every query agrees with a freshly constructed mesh; rm_free_vertices_ keeps "
          "exactly the used vertices and preserves geometry. (2) Translator: harness/effects_extract.py regenerates from /repo's source "
          "on every run the table of write effects of all 91 public functions; the Coq theorem C20_effects_table_ok (vm_compute + "
          "soundness lemma) states that non-underscore functions write neither v/t of any mesh nor caller arrays nor call in-place "
          "methods, that in-place methods re-initialise after their last element write, that constructors copy, and that outside the "
          "constructor no method of a mesh class assigns an attribute of self other than v and t (no hidden cache that the in-place "
          "operations would leave stale). (3) Correspondence: "
          "exhaustive op sequences up to length 2/3 on seed meshes, model vs implementation, plus live-vs-fresh query oracles and "
          "before/after snapshots around every public function."),
    design="6/C20", technique="Coq invariant proof over operation histories + AST translator re-checked by vm_compute + exhaustive short histories")

CHECKS["C06"] = dict(
    text=("Theorems over R about the Gallina model of the five operators, for every element of non-zero measure (any length unit): the triangle gradient equals the gradient of "
          "the linear interpolant (spec of C01), is the projection of a for affine data; both triangle divergences are the negative "
          "adjoint per element for EVERY field X; assembled: sum_i f_i div(X)_i = -sum_t area_t X_t.grad_t f for all f, X, meshes; "
          "entries of div sum to zero; div(grad g) = -A g with the stiffness of C01; tets (after fix e9245f1): gradient = interpolant "
          "gradient for either orientation, exact on affine data, element adjointness with the orientation sign, assembled "
          "adjointness sum_i f_i div(X)_i = -sum_t vol_t X_t.grad_t f and div(grad g) = -A g with the tetra stiffness of C01; the gradient "
          "of a non-degenerate element is the same vector for every order of its indices (6 / 24 orders, GradInvarP). "
          "Dispatchers and dtype handling are tied by correspondence + oracles."),
    design="6/C06", technique="Coq proof over R (ring/field identities, scatter pairing lemma) + vm_compute correspondence")

CHECKS["C05"] = dict(
    text=("Theorems over R about the Gallina model of Solver.poisson (validation order, right-hand side B(h-n) - A d, masking, reduced "
          "system with renumbering, re-insertion), universally quantified over the sparse solver (a Section parameter with the contract "
          "'returns a solution of the system it is given'): the result takes exactly the prescribed Dirichlet values; at every other vertex "
          "A x = B(h - n) for scalar or vector h and any Neumann data; duplicate indices, mismatched lengths and wrong-size h give "
          "ValueError before any solve; superposition: whenever the Dirichlet problem on the free vertices has only the trivial "
          "solution, results for linearly combined (right-hand side, Dirichlet data, Neumann data) combine linearly, for every solver "
          "meeting the contract. Affine reproduction on flat meshes and the float32 accuracy are decided by the certificate check "
          "(implementation output verified against the model's equation inside Coq) and oracles (partial)."),
    design="6/C05", technique="Coq proof parametric in the solver oracle + in-Coq certificate check of the implementation's solution")

CHECKS["C07"] = dict(
    text=("Theorems over R: any solution of (B + tA) u = b conserves total heat (sum B u = sum b) whenever A is symmetric and kills "
          "constants (proved for the triangle and tetra stiffness in C01); the indicator sums to the number of distinct seeds; for "
          "non-degenerate triangle meshes and t >= 0 the system is positive definite, hence its solution unique (additivity); kernel "
          "symmetric in (p,q) and diagonal = kernel at p=q; solutions for b1, b2 and b1+b2 from any solver add up (additivity over seed "
          "sets as a theorem). The solver is an oracle: the implementation's u is verified inside Coq "
          "against the model's system (lumped mass, t = m*avg_edge^2, indicator). Rigid/scale laws, aniso and numpy broadcasting of "
          "kernel/diagonal are covered by correspondence + oracles (partial)."),
    design="6/C07", technique="Coq proof over R + in-Coq certificate check of the implementation's solution + formula-level kernel model")

CHECKS["C08"] = dict(
    text=("Theorems over R, for every sparse solver meeting the contract: whenever the solver returns, the geodesic function (triangle and "
          "tetra; one model for the generic and the triangle-specific entry point since the mass is replaced by the identity) satisfies "
          "A g = div(grad f/|grad f|) at every vertex, is >= 0 and attains 0; the rotated function is 0 at vertex 0 and satisfies "
          "A r = div(n x grad f) at every other vertex. The right-hand sides are the C06 operators. The implementation's outputs are "
          "verified against these systems inside Coq (certificate check). Exactness: for f = a.x + b0 on a flat triangle mesh (a in "
          "the plane) and on ANY tetrahedral mesh (either element orientation) the normalised gradient field is the gradient of "
          "u = (a/|a|).x and the right-hand side equals -A u, so the unit-slope function decreasing along grad f solves the system "
          "exactly. Quarter turn (RotatedAffineP): on a flat mesh with unit normal n the field n x grad f of an affine f is the gradient of "
          "u = (n x a).x, n x a is orthogonal to a and as long as a, and the right-hand side of compute_rotated_f equals -A u, so the "
          "quarter-turned affine function pinned at vertex 0 solves the system exactly (oracles on flat oriented meshes as well). Termination of "
          "SuperLU on the singular system is not covered (known finding F17) (partial)."),
    design="6/C08", technique="Coq proof parametric in the solver oracle + in-Coq certificate check")

CHECKS["C03"] = dict(
    text=("Theorems over R about the pencil (A, B) of C01/C02: B positive definite (full and lumped), every eigenvalue >= 0 (Rayleigh "
          "quotient), constants are eigenvectors for 0, eigenvectors of distinct eigenvalues are B-orthogonal, the shift-invert operator "
          "A - sigma B (sigma < 0) is positive definite and its eigenpairs map back via lambda = sigma + 1/nu. ARPACK/SuperLU are oracles: "
          "each returned (w, V) is verified inside Coq against the model's A, B (residual of A v = w B v, V^T B V = I, ascending) and "
          "against the dense reference spectrum / component count in the Python oracle. The kernel of the triangle stiffness matrix is "
          "exactly the set of functions constant on every triangle, i.e. on every connected component (one zero eigenvalue per "
          "component). Completeness of Lanczos on highly degenerate spectra is not covered (known finding F18) (partial)."),
    design="6/C03", technique="Coq proof over R (bilinear-form arguments) + in-Coq certificate check of returned eigenpairs")

CHECKS["C04"] = dict(
    text=("Theorems over R: for every Q with Q^T Q = I (rotations AND reflections) and translation b the triangle stiffness and mass "
          "triplet lists of the moved mesh are identical to the original ones (entries depend on edge Gram data only; nsatz + Lagrange); "
          "4*area scales by s^2 and cotangent entries are scale-free, so eigenvalues scale by 1/s^2; area- and volume^(2/3)-normalised "
          "spectra of scaled copies coincide (cube-root uniqueness); reweight_ev divides the i-th value by i; compute_distance is a "
          "metric value. Spectral invariance itself additionally relies on the solver contract of C03 and is decided by metamorphic runs "
          "on the implementation (rigid/reflect/relabel/reorder/rotate/flip/scale, in-place rescaling history); the dictionary and "
          "normalize_ev (with vol**(2/3) certified by cubing in Coq) are tied by correspondence."),
    design="6/C04", technique="Coq proof over R (nsatz/field) + metamorphic oracles + vm_compute correspondence")

CHECKS["C14"] = dict(
    text=("Theorems about the token-level file model of write_vtk/read_vtk (triangle and tetra), for every vertex list, every "
          "non-empty connectivity list, every rounding function and scalar type: read(write(v, t)) = (round32 v, t) -- identical "
          "connectivity values, order and winding; EVERY proper line-prefix of a written file (header, vertex section, between "
          "sections, element section) yields no mesh; an OFF file per the format definition (any number of leading comment lines, "
          "counts, vertices, faces '3 a b c') loads to the mesh it describes; a Gmsh 2 ASCII tetrahedral file (arbitrary ids and "
          "tags, 1-based nodes) loads with zero-based indices; a VTK file with TRIANGLE_STRIPS loads to the triangles the format "
          "definition assigns to each strip (position-based spec, alternating winding); files of the wrong kind (tetra VTK read as triangles and "
          "vice versa, VTK read as OFF) yield no mesh; FreeSurfer surfaces at field level (layout written by nibabel, reader "
          "lapy/_read_geometry.py): read(write(v, t, header)) = (single-precision v, t, header) for heads [20] / [2,0,20], every prefix "
          "ending before the end of the element section is rejected, a wrong magic number is rejected. Number<->text conversion (Python str / C strtod) is abstracted and covered by "
          "correspondence: the model writer must produce the token stream of the real file and the model readers (VTK, OFF) must return "
          "what the real readers return on written, foreign and every line-truncated file; FreeSurfer files are split into fields by "
          "an independent tokenizer and model writer / reader are compared with nibabel's bytes and read_fssurf on complete, "
          "byte-truncated and wrong-magic files; Gmsh files (complete and truncated) and strips files go through the model reader. "
          " write_ev/read_ev (bit-exact, all shapes, edit histories) and write_vfunc/read_vfunc are decided by round-trip oracles on "
          "the implementation only (partial: no model of those formats; byte encodings of int32/float32 and number formatting abstracted)."),
    design="6/C14", technique="Coq proof over token-stream codec model (list induction) + vm_compute correspondence + round-trip oracles")

CHECKS["C16"] = dict(
    text=("Theorems over R about the Gallina model of level_length / level_path, for every mesh, function and level: in each of the "
          "crossing patterns the isolated corner is chosen and uncrossed triangles are skipped; each computed point is a convex "
          "combination strictly inside a mesh edge where the interpolant equals the level, independent of edge direction; level_length "
          "(one level or an array) = sum over triangles of the segment between the two crossed edges (independent spec); level_path "
          "returns exactly that length for all options (unique-edge table lookups proved correct); non-scalar input gives ValueError; "
          "the ordered path visits every node exactly once along edges of the segment graph, every segment joins the two crossing "
          "points of ONE crossed mesh triangle which is the triangle reported for it; resampling (all three rounds) returns n points "
          "with unchanged first and last point. The walk stands for shortest_path+argsort (identical on graphs of degree <= 2, tied to "
          "the code by correspondence); merging at 1e-3 and equal arc-length spacing are decided by correspondence plus brute-force "
          "oracles (partial)."),
    design="6/C16", technique="Coq proof over R (case analysis on crossing patterns, field, list induction over the walk) + vm_compute correspondence at binary64")

CHECKS["C17"] = dict(
    text=("Theorems over R about the Gallina model of curvature()/curvature_tria(), with the eigen-solver as an oracle: for EVERY result "
          "the solver returns, c_min <= c_max, mean = (c_min+c_max)/2, Gauss = c_min*c_max and each returned direction is +- one of the "
          "solver's eigenvectors; for every result with orthonormal eigenvectors the directions are unit, mutually orthogonal and "
          "orthogonal to the returned normal, the normal lies on the side of the vertex normal and (u_min, u_max, n) is right-handed; "
          "curvature_tria returns two unit, orthogonal directions in the triangle plane on every non-degenerate triangle, whatever "
          "direction was pooled from the vertices (after fix f3ef02f). Correspondence: the model reproduces the tensors handed to the solver "
          "(np.linalg.eig/eigh wrapped in the harness process) and, fed with the solver's result, the outputs. Invariance under "
          "similarity, cylinder and sphere behaviour are decided by oracles on the implementation (partial); directions inside "
          "eigenspaces of dimension >= 2 do not rotate with the mesh (known finding F21)."),
    design="6/C17", technique="Coq proof over R (permutation case analysis, ring/field) + oracle-recording correspondence at binary64")

CHECKS["C19"] = dict(
    text=("Theorems over R, for every sparse solver meeting its contract: normalize_ yields unit area and centroid at the origin on "
          "every mesh of positive area; tria_mean_curvature_flow returns the input connectivity and a re-normalised solver answer "
          "(hence unit area, centred); every iteration's answer X satisfies (M + step A0) X = M V coordinate-wise with M the lumped "
          "mass of the current iterate and A0 the fixed stiffness; max_iter = 0 returns the normalised copy; a mesh returned by "
          "tria_spherical_project's final stage has the input connectivity, passed the documented gates and has every vertex at "
          "distance 100; the spectral embedding built from the eigenfunctions (oracle) has all coordinates in [-1,1] and, after the "
          "sign choices, every eigenfunction is positively aligned with its axis (mean position of its high region vs its low region); "
          "the returned flow mesh has unit area and centred centroid whenever the last solver answer spans a positive area. "
          "spsolve's recorded answers are verified inside Coq against the model's systems (certificate), the stopping "
          "rule and the returned vertices are replayed; sphere fixed point, radial spread, orientation and axis alignment of the "
          "projection as a whole, argument-untouched are decided by oracles on the implementation; ARPACK inside the projection is an "
          "oracle whose eigenfunctions are recorded and fed to the model of the embedding (partial)."),
    design="6/C19", technique="Coq proof over R parametric in the solver oracle + in-Coq certificate replay of recorded solves")

CHECKS["C18"] = dict(
    text=("Theorems over R about the Gallina model of lapy/conformal.py: inverse_stereographic lands on the unit sphere and the "
          "stereographic pair is mutually inverse away from the pole; the Beltrami coefficient of z -> a z + b conj z (|b| < |a|) "
          "followed by ANY isometric embedding is b/a on every non-degenerate triangle (discrete derivative operators exact on affine "
          "functions); linear_beltrami_solver reproduces every landmark exactly for every solver meeting its contract; "
          "spherical_conformal_map raises ValueError iff Euler characteristic <> 2; in its north-pole stage the big triangle is laid "
          "out at (0,0), (1,0), (|a.b|, |a x b|)/|a|^2 and every solver meeting its contract reproduces these positions; its final step "
          "returns unit vectors and inverts the south-pole projection (not its mirror image); mobius_area_correction_spherical returns, "
          "for whatever parameters the optimiser finds, unit vectors and keeps the cross-ratio of any four points (complex field "
          "identity, Coquelicot). Correspondence: the whole map is followed through the model -- the recorded answer of the first "
          "solve is verified against the model's north-pole system, the rescaling / projection to the south plane and the choice of "
          "landmarks are recomputed, Beltrami coefficients, the second solve (certificate), the final step and the Moebius image are "
          "compared. Unit norm, positive volume for outward inputs, similarity invariance, reproduction of piecewise-affine maps and "
          "the Moebius objective are decided by oracles on the implementation (partial: SuperLU and scipy.optimize are oracles)."),
    design="6/C18", technique="Coq proof over R and C (field identities, solver-oracle contract) + vm_compute correspondence and in-Coq certificates")

NOT_YET = {}


def main():
    props = [json.loads(l) for l in open(os.path.join(VERIF, "properties.jsonl"))]
    checks = []
    na = []
    for p in props:
        pid = p["id"]
        if pid in CHECKS:
            c = CHECKS[pid]
            checks.append({
                "property_id": pid,
                "quick_cmd": f"./check {pid} --tier quick",
                "thorough_cmd": f"./check {pid} --tier thorough",
                "evidence_file": f"/verif/evidence/{pid}.json",
                "replay_cmd_template": f"./check {pid} --replay {{path}}",
                "engine": "coq-model+correspondence",
                "level_claimed": {"category": "proof", "text": c["text"], "design_ref": c["design"]},
                "level_note": c.get("note", BASE_NOTE),
                "technique": c["technique"],
            })
        else:
            na.append({"property_id": pid, "reason": NOT_YET.get(pid, "check not built yet in this session (work in progress; the technique applies, see DESIGN.md section 6)")})
    man = {
        "version": 1,
        "setup_cmd": "./check --setup",
        "hooks": {"guard": "DEEP_MI_LAPY_VERIF", "enable": "no source hooks are needed; checks run /repo's Python directly with PYTHONPATH=/repo (DEEP_MI_LAPY_VERIF=1 is exported by ./check but read by nothing in /repo)",
                  "baseline_off_cmd": "cd /repo && /venv/bin/python -m pytest -ra -q -p no:cacheprovider --timeout=900 --continue-on-collection-errors",
                  "source_commits": [], "add_only": True},
        "engines": [{"name": "coq-model+correspondence", "path": "/verif/coq", "serves_properties": sorted(CHECKS),
                     "kind_free_text": "Coq 8.16.1 development (Gallina model + theorems) and a Python driver that evaluates the model with vm_compute against /repo's implementation"}],
        "checks": checks,
        "notes": "See DESIGN.md. ./check <id> --tier quick|thorough [--replay f].",
        "not_applicable": na,
    }
    json.dump(man, open(os.path.join(VERIF, "MANIFEST.json"), "w"), indent=1)


if __name__ == "__main__":
    main()
